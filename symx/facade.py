"""Shims: numpy facade, builtins (int/float/max/min/len/round) and installer.

Shims are installed by rebinding *names in the pulser modules' namespaces*;
no pulser function is replaced (exceptions: the lru_cache wrappers around
Waveform.modulation_buffers/_modulated_samples are unwrapped).  On concrete
values every shim is the identity wrapper around the real numpy/builtin.
"""
from __future__ import annotations

import builtins
import functools
import math

import numpy as real_np
import z3

from .core import (
    ITE, NAN, Realise, SBool, SFix, SInt, SReal, _b, _i, _np_item, _r, ctx,
    is_sym, smax, smin, sym_sqrt,
)

# --------------------------------------------------------------------------
# builtins
# --------------------------------------------------------------------------


def has_sym(x) -> bool:
    if is_sym(x):
        return True
    if isinstance(x, ConstArr):
        return True
    if isinstance(x, real_np.ndarray):
        return x.dtype == object
    if hasattr(x, "_array") and isinstance(getattr(x, "_array"), real_np.ndarray):
        return x._array.dtype == object
    if hasattr(x, "_array") and isinstance(getattr(x, "_array"), ConstArr):
        return True
    if isinstance(x, (list, tuple)):
        return any(has_sym(y) for y in x)
    return False


def _unwrap0(x):
    """AbstractArray / 0-d object array -> the element."""
    if hasattr(x, "_array") and not isinstance(x, real_np.ndarray):
        x = x._array
    if isinstance(x, real_np.ndarray) and x.dtype == object and x.size == 1:
        return x.reshape(()).item()
    return x


class _SymIntMeta(type):
    def __instancecheck__(cls, x):
        return isinstance(x, (builtins.int, SInt))

    def __call__(cls, x=0, *a):
        x = _unwrap0(x)
        if isinstance(x, SInt):
            return x
        if isinstance(x, SBool):
            return x._as_int()
        if isinstance(x, SReal):
            return x.trunc()
        return builtins.int(x, *a)

    def __eq__(cls, o):
        return o is cls or o is builtins.int

    def __hash__(cls):
        return hash(builtins.int)


class sym_int(metaclass=_SymIntMeta):
    pass


sym_int.__name__ = "int"
sym_int.__qualname__ = "int"


class _SymFloatMeta(type):
    def __instancecheck__(cls, x):
        return isinstance(x, (builtins.float, SReal))

    def __call__(cls, x=0.0):
        x = _unwrap0(x)
        if isinstance(x, SReal):
            return x
        if isinstance(x, SInt):
            return SReal(z3.ToReal(x.e))
        if isinstance(x, SBool):
            return SReal(_r(x))
        return builtins.float(x)

    def __eq__(cls, o):
        return o is cls or o is builtins.float

    def __hash__(cls):
        return hash(builtins.float)


class sym_float(metaclass=_SymFloatMeta):
    pass


sym_float.__name__ = "float"
sym_float.__qualname__ = "float"


def sym_len(x):
    if isinstance(x, ConstArr):
        return x.length
    a = getattr(x, "_array", None)
    if isinstance(a, ConstArr):
        return a.length
    return builtins.len(x)


def sym_round(x, n=None):
    x0 = _unwrap0(x)
    if is_sym(x0):
        return x0.__round__(n)
    return builtins.round(x, n) if n is not None else builtins.round(x)


def sym_abs(x):
    return builtins.abs(x)


def sym_bool(x=False):
    return builtins.bool(x)


def _dt(dtype):
    if dtype is sym_float or dtype is builtins.float:
        return builtins.float
    if dtype is sym_int or dtype is builtins.int:
        return builtins.int
    return dtype


# --------------------------------------------------------------------------
# ConstArr: constant array of (possibly symbolic) length
# --------------------------------------------------------------------------


class ConstArr:
    """`value` repeated `length` times; length may be an SInt."""

    ndim = 1
    dtype = real_np.dtype(object)
    __array_priority__ = 2000

    def __init__(self, value, length):
        self.value = _np_item(value)
        self.length = length

    @property
    def shape(self):
        return (self.length,)

    @property
    def size(self):
        return self.length

    def copy(self):
        return ConstArr(self.value, self.length)

    def astype(self, dt):
        return self

    def tolist(self):
        raise Realise("ConstArr.tolist")

    def __len__(self):
        raise Realise("len(ConstArr) - use the len shim")

    def _nonempty(self):
        return self.length > 0

    def __array_ufunc__(self, ufunc, method, *inputs, **kw):
        if method != "__call__":
            return NotImplemented
        vals = []
        for x in inputs:
            if isinstance(x, ConstArr):
                vals.append(x.value)
            elif isinstance(x, real_np.ndarray) and x.ndim == 0:
                vals.append(x.item())
            elif real_np.isscalar(x) or is_sym(x):
                vals.append(x)
            else:
                return NotImplemented
        out = ufunc(*[real_np.asarray(v, dtype=object) for v in vals])
        out = out.item() if isinstance(out, real_np.ndarray) else out
        return ConstArr(out, self.length)

    def __array_function__(self, func, types, args, kwargs):
        return _constarr_function(func.__name__, self, args, kwargs)

    def _b(self, o, f):
        if isinstance(o, ConstArr):
            ov = o.value
        elif isinstance(o, real_np.ndarray) and o.ndim == 0:
            ov = o.item()
        elif isinstance(o, real_np.ndarray):
            raise Realise("ConstArr (op) ndarray")
        elif hasattr(o, "_array"):
            return NotImplemented
        else:
            ov = o
        return ConstArr(f(self.value, ov), self.length)

    def __mul__(s, o):
        return s._b(o, lambda a, b: a * b)

    __rmul__ = __mul__

    def __add__(s, o):
        return s._b(o, lambda a, b: a + b)

    __radd__ = __add__

    def __sub__(s, o):
        return s._b(o, lambda a, b: a - b)

    def __rsub__(s, o):
        return s._b(o, lambda a, b: b - a)

    def __truediv__(s, o):
        return s._b(o, lambda a, b: a / b)

    def __neg__(s):
        return ConstArr(-s.value, s.length)

    def __abs__(s):
        return ConstArr(abs(s.value), s.length)

    def __lt__(s, o):
        return s._b(o, lambda a, b: a < b)

    def __gt__(s, o):
        return s._b(o, lambda a, b: a > b)

    def __le__(s, o):
        return s._b(o, lambda a, b: a <= b)

    def __ge__(s, o):
        return s._b(o, lambda a, b: a >= b)

    def __eq__(s, o):
        return s._b(o, lambda a, b: a == b)

    def __ne__(s, o):
        return s._b(o, lambda a, b: a != b)

    __hash__ = None  # type: ignore

    def __getitem__(self, i):
        if isinstance(i, slice):
            raise Realise("slice of ConstArr")
        return self.value

    def __repr__(self):
        return "ConstArr(%r x %r)" % (self.value, self.length)


def _constarr_function(name, self, args, kwargs):
    if name == "any":
        return bool(self.value) if bool(self._nonempty()) else False
    if name == "all":
        return bool(self.value) if bool(self._nonempty()) else True
    if name in ("amax", "amin", "max", "min", "average", "mean"):
        return self.value
    if name == "sum":
        return self.value * self.length
    if name in ("round", "around"):
        dec = kwargs.get("decimals", args[1] if len(args) > 1 else 0)
        v = self.value
        return ConstArr(v.round(dec) if is_sym(v) else real_np.round(v, dec), self.length)
    if name in ("abs", "absolute"):
        return ConstArr(abs(self.value), self.length)
    if name in ("asarray", "copy"):
        return self
    raise Realise("ConstArr: numpy function %s not modelled" % name)


# --------------------------------------------------------------------------
# numpy facade
# --------------------------------------------------------------------------


def _objarr(a):
    if isinstance(a, ConstArr):
        return a
    if hasattr(a, "_array") and not isinstance(a, real_np.ndarray):
        a = a._array
        if isinstance(a, ConstArr):
            return a
    if isinstance(a, (list, tuple)):
        a = [(_objarr(x).tolist() if has_sym(x) and not is_sym(x) else x) for x in a]
    return real_np.asarray(a, dtype=object)


def _elementwise(f, a):
    """Apply f to each element of an object array (or a scalar)."""
    if isinstance(a, ConstArr):
        return ConstArr(f(a.value), a.length)
    if is_sym(a):
        return f(a)
    arr = _objarr(a)
    if arr.ndim == 0:
        return f(arr.item())
    out = real_np.empty(arr.shape, dtype=object)
    for idx in real_np.ndindex(arr.shape):
        out[idx] = f(arr[idx])
    return out


_UF = {}


def _uf(name):
    if name not in _UF:
        _UF[name] = z3.Function("uf_" + name, z3.RealSort(), z3.RealSort())
    return _UF[name]


def _transc(name):
    def f(x):
        x = _np_item(x)
        if is_sym(x):
            return SReal(_uf(name)(_r(x)))
        return getattr(math, name)(x)

    return f


class NPFacade:
    """numpy, with symbolic-aware creation/reduction functions."""

    ndarray = real_np.ndarray
    pi = real_np.pi
    inf = real_np.inf
    nan = real_np.nan
    newaxis = None

    def __getattr__(self, name):
        attr = getattr(real_np, name)
        if callable(attr) and not isinstance(attr, type):
            fac = self

            @functools.wraps(attr)
            def wrapped(*a, **k):
                if "dtype" in k:
                    k["dtype"] = _dt(k["dtype"])
                return attr(*a, **k)

            return wrapped
        return attr

    # -- creation
    def asarray(self, a, dtype=None, **kw):
        dtype = _dt(dtype)
        if isinstance(a, ConstArr):
            return a
        if hasattr(a, "_array") and not isinstance(a, real_np.ndarray):
            a = a._array
            if isinstance(a, ConstArr):
                return a
        if has_sym(a):
            return _objarr(a)
        return real_np.asarray(a, dtype=dtype, **kw)

    def array(self, a, dtype=None, **kw):
        dtype = _dt(dtype)
        if isinstance(a, ConstArr):
            return a.copy()
        if has_sym(a):
            return real_np.array(_objarr(a), dtype=object)
        return real_np.array(a, dtype=dtype, **kw)

    def zeros(self, shape, dtype=builtins.float, **kw):
        dtype = _dt(dtype)
        if isinstance(shape, SInt):
            return ConstArr(0.0, shape)
        if dtype in (builtins.float, real_np.float64) and SYMBOLIC_ZEROS[0]:
            z = real_np.empty(shape, dtype=object)
            z[...] = 0.0
            return z
        return real_np.zeros(shape, dtype=dtype, **kw)

    def ones(self, shape, dtype=builtins.float, **kw):
        dtype = _dt(dtype)
        if isinstance(shape, SInt):
            return ConstArr(1.0, shape)
        return real_np.ones(shape, dtype=dtype, **kw)

    def full(self, shape, fill_value, dtype=None, **kw):
        if is_sym(fill_value):
            if isinstance(shape, SInt):
                return ConstArr(fill_value, shape)
            z = real_np.empty(shape, dtype=object)
            z[...] = fill_value
            return z
        return real_np.full(shape, fill_value, dtype=_dt(dtype), **kw)

    def blackman(self, M):
        """np.blackman with a symbolic length: the length is concretised by forking (every feasible length is a path)."""
        if isinstance(M, SInt):
            M = concretize_int(M)
        return real_np.blackman(M)

    def kaiser(self, M, beta):
        """np.kaiser with a symbolic length (concretised by forking); beta concrete."""
        if isinstance(M, SInt):
            M = concretize_int(M)
        return real_np.kaiser(M, beta)

    def arange(self, *a, **k):
        if "dtype" in k:
            k["dtype"] = _dt(k["dtype"])
        if any(is_sym(x) for x in a):
            raise Realise("np.arange(symbolic)")
        return real_np.arange(*a, **k)

    # -- elementwise
    def isclose(self, a, b, rtol=1e-05, atol=1e-08, equal_nan=False):
        if has_sym(a) or has_sym(b):
            a = _objarr(a)
            b = _objarr(b)
            d = a - b
            lhs = _elementwise(abs, d)
            rhs = atol + rtol * _elementwise(abs, b)
            it = real_np.broadcast(lhs, rhs)
            out = real_np.empty(it.shape, dtype=object)
            out.flat = [x <= y for x, y in it]
            return out if out.ndim else out.item()
        return real_np.isclose(a, b, rtol=rtol, atol=atol, equal_nan=equal_nan)

    def allclose(self, a, b, rtol=1e-05, atol=1e-08, equal_nan=False):
        if has_sym(a) or has_sym(b):
            from .core import AND

            r = self.isclose(a, b, rtol=rtol, atol=atol)
            items = list(real_np.asarray(r, dtype=object).flat)
            return AND(*items) if items else True
        return real_np.allclose(a, b, rtol=rtol, atol=atol, equal_nan=equal_nan)

    def isfinite(self, a, **kw):
        if has_sym(a):
            import math as _m

            return _elementwise(lambda x: True if is_sym(x) else _m.isfinite(x), a)
        return real_np.isfinite(a, **kw)

    def isnan(self, a, **kw):
        if has_sym(a):
            import math as _m

            return _elementwise(lambda x: False if is_sym(x) else _m.isnan(x), a)
        return real_np.isnan(a, **kw)

    def isinf(self, a, **kw):
        if has_sym(a):
            import math as _m

            return _elementwise(lambda x: False if is_sym(x) else _m.isinf(x), a)
        return real_np.isinf(a, **kw)

    def clip(self, a, a_min=None, a_max=None, **kw):
        if has_sym(a) or is_sym(a_min) or is_sym(a_max):
            def f(x):
                r = x
                if a_min is not None:
                    r = smax(r, a_min)
                if a_max is not None:
                    r = smin(r, a_max)
                return r

            return _elementwise(f, a)
        return real_np.clip(a, a_min, a_max, **kw)

    def round(self, a, decimals=0, **kw):
        if has_sym(a):
            def f(x):
                if is_sym(x):
                    return x.round(decimals) if isinstance(x, SReal) else x
                return real_np.round(x, decimals)

            return _elementwise(f, a)
        return real_np.round(a, decimals, **kw)

    around = round

    def abs(self, a, **kw):
        if has_sym(a):
            return _elementwise(abs, a)
        return real_np.abs(a, **kw)

    absolute = abs

    def sqrt(self, a, **kw):
        if has_sym(a):
            return _elementwise(sym_sqrt, a)
        return real_np.sqrt(a, **kw)

    def sign(self, a, **kw):
        if has_sym(a):
            def f(x):
                if is_sym(x):
                    return ITE(x > 0, 1.0, ITE(x < 0, -1.0, 0.0))
                return real_np.sign(x)

            return _elementwise(f, a)
        return real_np.sign(a, **kw)

    def ceil(self, a, **kw):
        if has_sym(a):
            return _elementwise(lambda x: SReal(z3.ToReal(x.__ceil__().e)) if is_sym(x) else math.ceil(x), a)
        return real_np.ceil(a, **kw)

    def floor(self, a, **kw):
        if has_sym(a):
            return _elementwise(lambda x: SReal(z3.ToReal(x.__floor__().e)) if is_sym(x) else math.floor(x), a)
        return real_np.floor(a, **kw)

    def _mk_transc(name):  # noqa: N805
        def g(self, a, **kw):
            if has_sym(a):
                return _elementwise(_transc(name), a)
            return getattr(real_np, name)(a, **kw)

        return g

    sin = _mk_transc("sin")
    cos = _mk_transc("cos")
    tan = _mk_transc("tan")
    tanh = _mk_transc("tanh")
    exp = _mk_transc("exp")
    log = _mk_transc("log")
    log2 = _mk_transc("log2")
    del _mk_transc

    # -- reductions
    @staticmethod
    def _ua(a):
        """AbstractArray -> the wrapped array (so that ConstArr is recognised)."""
        if hasattr(a, "_array") and not isinstance(a, real_np.ndarray):
            return a._array
        return a

    def any(self, a, *args, **kw):
        a = self._ua(a)
        if isinstance(a, ConstArr):
            return _constarr_function("any", a, (a,) + args, kw)
        return real_np.any(a, *args, **kw)

    def count_nonzero(self, a, *args, **kw):
        a = self._ua(a)
        if not isinstance(a, ConstArr) and has_sym(a) and not args and not kw:
            tot = 0
            for x in _objarr(a).flat:
                x = _np_item(x)
                if is_sym(x):
                    tot = tot + ITE(x != 0, 1, 0)
                elif x != 0:
                    tot = tot + 1
            return tot
        return real_np.count_nonzero(a, *args, **kw)

    def all(self, a, *args, **kw):
        a = self._ua(a)
        if isinstance(a, ConstArr):
            return _constarr_function("all", a, (a,) + args, kw)
        return real_np.all(a, *args, **kw)

    def max(self, a, *args, **kw):
        a = self._ua(a)
        if isinstance(a, ConstArr):
            return a.value
        if has_sym(a) and not args and not kw:
            return smax(list(_objarr(a).flat))
        return real_np.max(a, *args, **kw)

    amax = max

    def min(self, a, *args, **kw):
        a = self._ua(a)
        if isinstance(a, ConstArr):
            return a.value
        if has_sym(a) and not args and not kw:
            return smin(list(_objarr(a).flat))
        return real_np.min(a, *args, **kw)

    amin = min

    def sum(self, a, *args, **kw):
        a = self._ua(a)
        if isinstance(a, ConstArr):
            return a.value * a.length
        return real_np.sum(a, *args, **kw)

    def average(self, a, *args, **kw):
        a = self._ua(a)
        if isinstance(a, ConstArr):
            return a.value
        return real_np.average(a, *args, **kw)

    mean = average

    def prod(self, a, *args, **kw):
        if isinstance(a, (tuple, list)) and any(is_sym(x) for x in a):
            r = 1
            for x in a:
                r = r * x
            return r
        return real_np.prod(a, *args, **kw)

    # -- sorting / set
    def unique(self, ar, axis=None, return_index=False, **kw):
        ar_ = real_np.asarray(ar)
        if ar_.dtype == object and axis == 0 and not kw:
            # numpy contract: sorted unique rows (lexicographic, first column primary); with return_index the
            # positions of the first occurrences
            n = len(ar_)

            def cmp(i, j):
                for a, b in zip(ar_[i], ar_[j]):
                    if bool(a < b):
                        return -1
                    if bool(b < a):
                        return 1
                return 0

            order = sorted(range(n), key=functools.cmp_to_key(cmp))  # stable: equal rows keep their original order
            keep = []
            for i in order:
                if not keep or cmp(keep[-1], i) != 0:
                    keep.append(i)
            rows = real_np.array([list(ar_[i]) for i in keep], dtype=object).reshape(len(keep), ar_.shape[1])
            if return_index:
                return rows, real_np.array(keep, dtype=int)
            return rows
        if return_index:
            kw["return_index"] = True
        return real_np.unique(ar, axis=axis, **kw)

    def lexsort(self, keys, axis=-1):
        ks = [real_np.asarray(k) for k in keys]
        if any(k.dtype == object for k in ks):
            n = len(ks[0])

            def cmp(i, j):
                for k in reversed(ks):
                    if bool(k[i] < k[j]):
                        return -1
                    if bool(k[j] < k[i]):
                        return 1
                return 0

            return real_np.array(sorted(range(n), key=functools.cmp_to_key(cmp)), dtype=int)
        return real_np.lexsort(keys, axis=axis)

    def argmin(self, a, *args, **kw):
        if has_sym(a) and not args and not kw:
            arr = _objarr(a)
            best = 0
            for i in range(1, len(arr)):
                if bool(arr[i] < arr[best]):
                    best = i
            return best
        return real_np.argmin(a, *args, **kw)


def concretize_int(x, lo=0, hi=4096):
    """Fork until the symbolic integer has a single value on this path."""
    c = ctx()
    if c.model is None:
        if c._check() != "sat":
            from .core import Infeasible

            raise Infeasible()
        c.model = c._last_model
    while True:
        v = c.model.eval(x.e, model_completion=True).as_long()
        if bool(x == v):
            return v
        # the other branch was taken: c.model was refreshed by branch()
        if c.model is None:
            c._check()
            c.model = c._last_model


def _sorted_rows(rows):
    def cmp(a, b):
        for x, y in zip(a, b):
            if bool(x < y):
                return -1
            if bool(y < x):
                return 1
        return 0

    return sorted(rows, key=functools.cmp_to_key(cmp))


SYMBOLIC_ZEROS = [True]
FACADE = NPFacade()


class LinalgFacade:
    def __getattr__(self, n):
        return getattr(real_np.linalg, n)

    def norm(self, x, ord=None, axis=None, **kw):
        if has_sym(x):
            arr = _objarr(x)
            if arr.ndim == 1 and axis is None:
                return sym_sqrt(builtins.sum((v * v for v in arr), 0))
            if arr.ndim == 2 and axis == 1:
                out = real_np.empty(arr.shape[0], dtype=object)
                for i in range(arr.shape[0]):
                    out[i] = sym_sqrt(builtins.sum((v * v for v in arr[i]), 0))
                return out
            raise Realise("linalg.norm shape")
        return real_np.linalg.norm(x, ord=ord, axis=axis, **kw)


NPFacade.linalg = LinalgFacade()


# --------------------------------------------------------------------------
# installer
# --------------------------------------------------------------------------

_INSTALLED = [False]


def install(extra_np=(), extra_float=(), extra_int=(), extra_maxmin=()):
    """Rebind names in pulser module namespaces (idempotent)."""
    import warnings

    import pulser
    import pulser.channels.base_channel as bc
    import pulser.channels.dmm as dmm
    import pulser.channels.eom as eom
    import pulser.math as pmm
    import pulser.math.abstract_array as aa
    import pulser.pulse as pl
    import pulser.sampler.samples as SM
    import pulser.sequence._basis_ref as BR
    import pulser.sequence._schedule as S
    import pulser.sequence.sequence as SQ
    import pulser.waveforms as wf

    from .core import REPO_ROOT

    assert pulser.__file__.startswith(REPO_ROOT + "/"), pulser.__file__
    for m in (aa, wf, pl, bc, dmm, eom, S, SQ, BR, SM, pmm) + tuple(extra_np):
        m.np = FACADE
    for m in (wf, pl, SQ, BR, SM, eom) + tuple(extra_float):
        m.float = sym_float
    for m in (bc, wf, SQ, eom) + tuple(extra_int):
        m.int = sym_int
    for m in (S, BR, SM, SQ, pl) + tuple(extra_maxmin):
        m.max = smax
        m.min = smin
    if not _INSTALLED[0]:
        if hasattr(wf.Waveform.modulation_buffers, "__wrapped__"):
            wf.Waveform.modulation_buffers = wf.Waveform.modulation_buffers.__wrapped__
        if hasattr(wf.Waveform._modulated_samples, "__wrapped__"):
            wf.Waveform._modulated_samples = wf.Waveform._modulated_samples.__wrapped__
    warnings.simplefilter("ignore")
    _INSTALLED[0] = True


def assert_repo():
    import pulser

    from .core import REPO_ROOT

    if not pulser.__file__.startswith(REPO_ROOT + "/"):
        raise SystemExit("HARNESS-ERROR pulser not imported from %s: %s" % (REPO_ROOT, pulser.__file__))
