"""Token JSON: lets proxies travel through json.dumps / json.loads.

dumps: the real encoder class is subclassed; a proxy is emitted as the string
token "@@symN@@".  loads: real json.loads, then tokens are replaced by the
proxies again (deserializer) or by a concrete *witness* number of the right
JSON type taken from a model of the current path condition (validator), so
that the REAL jsonschema.validate runs on the real document structure.
"""
from __future__ import annotations

import json as real_json

import z3

from . import core
from .core import SBool, SInt, SReal, is_sym

TOK: dict = {}


def reset():
    TOK.clear()


def _witness(p):
    c = core.Ctx.cur
    if c is None:
        return 1
    if c.model is None:
        if c._check() != "sat":
            raise core.Infeasible()
        c.model = c._last_model
    v = c.model.eval(p.e, model_completion=True)
    if isinstance(p, SInt):
        return v.as_long()
    if isinstance(p, SBool):
        return z3.is_true(v)
    if z3.is_algebraic_value(v):
        v = v.approx(20)
    return float(v.numerator_as_long()) / float(v.denominator_as_long())


class JSONFacade:
    substitute = True

    def __getattr__(self, n):
        return getattr(real_json, n)

    def dumps(self, obj, cls=None, **kw):
        base = cls or real_json.JSONEncoder

        class Enc(base):  # type: ignore[misc, valid-type]
            def default(self, o):
                o2 = core._np_item(o)
                if is_sym(o2):
                    k = "@@sym%d@@" % len(TOK)
                    TOK[k] = o2
                    return k
                return super().default(o)

        return real_json.dumps(obj, cls=Enc, **kw)

    def loads(self, s, **kw):
        o = real_json.loads(s, **kw)
        sub = self.substitute

        def walk(x):
            if isinstance(x, str) and x in TOK:
                return TOK[x] if sub else _witness(TOK[x])
            if isinstance(x, list):
                return [walk(y) for y in x]
            if isinstance(x, dict):
                return {k: walk(v) for k, v in x.items()}
            return x

        return walk(o)

    def load(self, fp, **kw):
        return real_json.load(fp, **kw)


class JSONFacadeWitness(JSONFacade):
    substitute = False


def install():
    import pulser.backend.config as bc
    import pulser.backend.results as br
    import pulser.json.abstract_repr.deserializer as des
    import pulser.json.abstract_repr.serializer as ser
    import pulser.json.abstract_repr.validation as val
    import pulser.noise_model as nm
    import pulser.register.base_register as breg
    import pulser.register.register_layout as rl
    import pulser.sequence.sequence as sq

    f = JSONFacade()
    for m in (des, ser, nm, breg, rl, sq, bc, br):
        m.json = f
    val.json = JSONFacadeWitness()
    try:
        import pulser.devices._device_datacls as dd

        dd.json = f
    except Exception:  # pragma: no cover
        pass
