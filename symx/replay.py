"""Concrete replay of a solver model against the unshimmed code."""
from __future__ import annotations

import importlib
import sys
import warnings


def replay(check: str, kernel: str, shape: dict, assignment: dict, label: str) -> int:
    import pulser

    from symx import core

    assert pulser.__file__.startswith(core.REPO_ROOT + "/"), pulser.__file__

    warnings.simplefilter("ignore")
    mod = importlib.import_module(check)
    if hasattr(mod, "setup_concrete"):
        mod.setup_concrete()
    h = mod.harness(kernel, shape)
    res = core.run_concrete(h, assignment)
    if res["violated_assumption"]:
        print("NOT-REPRODUCED: assumption violated (%s)" % res["violated_assumption"])
        return 0
    if label not in res["results"]:
        print("NOT-REPRODUCED: obligation %r not reached; got %s" % (label, sorted(res["results"])))
        return 0
    if res["results"][label]:
        print("NOT-REPRODUCED: obligation %r holds on the concrete run" % label)
        return 0
    print("REPRODUCED: obligation %r is violated by the real code for inputs %s" % (label, assignment))
    return 1
