"""Environment stubs (every one is part of the claim; see DESIGN §2.2).

* ``stub_modulation_buffers`` replaces the FFT-based ``Waveform.
  modulation_buffers`` by a nondeterministic value under the contract
  ``0 <= start, end <= rise_time`` (rise time of the channel, or of its EOM
  when ``eom``); equal defining data => equal buffers (memoised).
* ``sym_channel`` builds a real channel object of a dynamic subclass whose
  ``rise_time`` property returns a given (symbolic) integer instead of
  ``int(0.48 / mod_bandwidth * 1e3)``.
* ``StubPulse``/``SymWaveform``: a Pulse whose duration is symbolic and whose
  samples are never looked at.
"""
from __future__ import annotations

import z3

from . import core
from .core import SInt, SReal, is_sym

CUR: list = [None]  # the current Inputs (set by harnesses through bind())


def bind(inp, fixed: bool = False) -> None:
    """fixed=True: buffers are the constant (tr//2, tr//2) (concrete timelines for harnesses that sample)."""
    CUR[0] = inp
    inp.memo = {}
    inp.nreq = 0
    inp.fixed_buffers = fixed


def _skey(x) -> str:
    x = core._np_item(x)
    if hasattr(x, "_array"):
        x = core._np_item(x._array)
    if isinstance(x, (SInt, SReal)):
        return x.e.sexpr()
    if hasattr(x, "value") and hasattr(x, "length"):  # ConstArr
        return "CA(%s,%s)" % (_skey(x.value), _skey(x.length))
    return repr(x)


def wf_key(wf) -> str:
    from pulser.waveforms import ConstantWaveform, RampWaveform

    if isinstance(wf, SymWaveform):
        return "sym:%s:%s" % (wf._name, _skey(wf._duration))
    if isinstance(wf, ConstantWaveform):
        return "const:%s:%s" % (_skey(wf._duration), _skey(wf._value))
    if isinstance(wf, RampWaveform):
        return "ramp:%s:%s:%s" % (_skey(wf._duration), _skey(wf._start), _skey(wf._stop))
    from pulser.waveforms import BlackmanWaveform, CompositeWaveform, CustomWaveform

    if isinstance(wf, BlackmanWaveform):
        return "blackman:%s:%s" % (_skey(wf._duration), _skey(wf._area))
    if isinstance(wf, CustomWaveform):
        return "custom:" + ",".join(_skey(x) for x in wf._samples_arr._array.flat)
    if isinstance(wf, CompositeWaveform):
        return "composite(" + ";".join(wf_key(w) for w in wf._waveforms) + ")"
    try:
        return "%s:%s" % (type(wf).__name__, ",".join(repr(float(x)) for x in wf._samples.as_array(detach=True)))
    except Exception:  # noqa: BLE001
        return "obj:%d" % id(wf)


def stub_modulation_buffers(self, channel, eom: bool = False):
    if not channel.mod_bandwidth:
        return 0, 0
    inp = CUR[0]
    tr = channel.eom_config.rise_time if eom else channel.rise_time
    if getattr(inp, "fixed_buffers", False):
        return tr // 2, tr // 2
    # the buffers are a function of the waveform and of the modulation seen by it (two channel objects with the
    # same bandwidth / rise time give the same buffers: needed when a sequence is rebuilt on another device)
    eom_bw = getattr(channel.eom_config, "mod_bandwidth", None) if eom else None
    key = ("buf", wf_key(self), _skey(channel.mod_bandwidth), _skey(eom_bw), _skey(tr), bool(eom))
    inp.nreq += 1
    if key in inp.memo:
        return inp.memo[key]
    n = inp.nreq
    start = inp.int("buf#%d.start" % n, 0, None)
    end = inp.int("buf#%d.end" % n, 0, None)
    inp.assume(core.AND(start <= tr, end <= tr))
    inp.memo[key] = (start, end)
    return inp.memo[key]


_ORIG = {}


def install_buffer_stub() -> None:
    import pulser.waveforms as wf

    if "mb" not in _ORIG:
        _ORIG["mb"] = wf.Waveform.modulation_buffers
    wf.Waveform.modulation_buffers = stub_modulation_buffers


def uninstall_buffer_stub() -> None:
    import pulser.waveforms as wf

    if "mb" in _ORIG:
        wf.Waveform.modulation_buffers = _ORIG["mb"]


# --------------------------------------------------------------------------


_CLS_CACHE: dict = {}


def _sym_cls(base):
    if base not in _CLS_CACHE:
        cls = type(base.__name__, (base,), {"rise_time": property(lambda s: s.__dict__["_tr"])})
        cls.__module__ = base.__module__
        _CLS_CACHE[base] = cls
    return _CLS_CACHE[base]


def sym_channel(base, addressing: str, tr, max_abs_detuning=None, max_amp=None, **fields):
    """A real channel whose rise_time is `tr` (mod_bandwidth only tells
    whether modulation exists)."""
    cls = _sym_cls(base)
    if tr is not None and "mod_bandwidth" not in fields:
        fields["mod_bandwidth"] = 4.0
    if base.__name__ == "DMM":
        ch = cls(**fields)
    elif addressing == "Global":
        ch = cls.Global(max_abs_detuning, max_amp, **fields)
    else:
        ch = cls.Local(max_abs_detuning, max_amp, **fields)
    object.__setattr__(ch, "_tr", tr if tr is not None else 0)
    return ch


def sym_eom(tr_eom, custom_buffer_time=None, **kw):
    from pulser.channels.eom import RydbergBeam, RydbergEOM

    cls = _sym_cls(RydbergEOM)
    params = dict(
        limiting_beam=RydbergBeam.RED, max_limiting_amp=30 * 2 * 3.141592653589793,
        intermediate_detuning=700 * 2 * 3.141592653589793, controlled_beams=(RydbergBeam.BLUE,),
        mod_bandwidth=40.0, custom_buffer_time=custom_buffer_time,
    )
    params.update(kw)
    e = cls(**params)
    object.__setattr__(e, "_tr", tr_eom)
    return e


# --------------------------------------------------------------------------


def _mk_classes():
    from pulser.pulse import Pulse
    from pulser.waveforms import Waveform
    import pulser.math as pm

    class SymWaveform(Waveform):
        """A waveform of symbolic duration whose samples are never used."""

        def __new__(cls, *a, **k):
            return object.__new__(cls)

        def __init__(self, name, duration):
            self._name = name
            self._duration = duration

        @property
        def duration(self):
            return self._duration

        @property
        def _samples(self):
            raise core.Realise("samples of a SymWaveform")

        @property
        def integral(self):
            """An arbitrary real (>= 0 for an amplitude), one per stub waveform: nothing in the unmodified scheduler reads it."""
            key = "integral:" + self._name
            inp = CUR[0]
            if key not in inp.memo:
                inp.memo[key] = inp.real(self._name + ".integral", 0 if self._name.endswith(".amp") else None, None)
            return inp.memo[key]

        def change_duration(self, new_duration):
            return SymWaveform(self._name, new_duration)

        def _to_dict(self):
            raise core.Realise("SymWaveform._to_dict")

        def _to_abstract_repr(self):
            raise core.Realise("SymWaveform._to_abstract_repr")

        def __str__(self):
            return "Sym(%s)" % self._name

        __repr__ = __str__

        def __mul__(self, other):
            raise core.Realise("SymWaveform.__mul__")

        def __eq__(self, other):
            return self is other

        def __hash__(self):
            return id(self)

    class StubPulse(Pulse):
        def __new__(cls, *a, **k):
            return object.__new__(cls)

        def __init__(self, name, duration, phase=0.0, post_phase_shift=0.0):
            object.__setattr__(self, "amplitude", SymWaveform(name + ".amp", duration))
            object.__setattr__(self, "detuning", SymWaveform(name + ".det", duration))
            object.__setattr__(self, "phase", pm.AbstractArray(phase))
            object.__setattr__(self, "post_phase_shift", post_phase_shift)
            object.__setattr__(self, "_name", name)

        def __repr__(self):
            return "StubPulse(%s)" % self.__dict__.get("_name")

        __str__ = __repr__

        def __eq__(self, other):
            return self is other

        def __hash__(self):
            return id(self)

    return SymWaveform, StubPulse


SymWaveform = None
StubPulse = None


def init() -> None:
    global SymWaveform, StubPulse
    if SymWaveform is None:
        SymWaveform, StubPulse = _mk_classes()
