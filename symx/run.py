"""CLI: python -m symx.run <PROPERTY-ID> [--tier quick|thorough] [--only kernel]

Loads checks/<id>.py, runs every shape of every kernel on a process pool,
replays each solver model against the unshimmed code in a clean subprocess,
matches reproduced counterexamples against known_findings.jsonl, writes
evidence/<id>.json and prints VIOLATION / KNOWN-FINDING lines.

exit 0: everything discharged (known findings allowed)
exit 1: a reproduced violation that is not a recorded finding
exit 2: harness error / inconclusive
"""
from __future__ import annotations

import argparse
import importlib
import json
import multiprocessing as mp
import os
import subprocess
import sys
import time
import traceback

VERIF = os.path.dirname(os.path.dirname(os.path.abspath(__file__)))
REPO_ROOT = os.environ.get("VERIF_REPO", "/repo")  # overridden only by tools/seed_regress.py (scratch copy)
REPO_PATHS = [REPO_ROOT + "/pulser-core", REPO_ROOT + "/pulser-simulation"]
for p in REPO_PATHS[::-1] + [VERIF]:
    if p not in sys.path:
        sys.path.insert(0, p)


def load_findings(prop: str) -> list[dict]:
    out = []
    path = os.path.join(VERIF, "known_findings.jsonl")
    if os.path.exists(path):
        for line in open(path):
            line = line.strip()
            if not line or line.startswith("#"):
                continue
            d = json.loads(line)
            if d.get("property") == prop and d.get("status") == "known":
                out.append(d)
    return out


def _region_fn(findings: list[dict], kernel: str, shape: dict):
    from symx import core

    def regions(label: str, inp) -> list:
        res = []
        for f in findings:
            if f.get("kernel") not in (None, kernel):
                continue
            labs = f.get("labels")
            if labs is not None and label not in labs and not any(
                l.endswith("*") and label.startswith(l[:-1]) for l in labs
            ):
                continue
            sp = f.get("shape")
            ns = dict(AND=core.AND, OR=core.OR, NOT=core.NOT, IMPLIES=core.IMPLIES,
                      shape=shape, label=label, abs=abs, True_=True, len=len, all=all, any=any, set=set, tuple=tuple)
            if sp is not None and not eval(sp, {"__builtins__": {}}, ns):
                continue
            ns.update({k.replace("/", "_").replace(".", "_").replace("#", "_"): d["proxy"] for k, d in inp.decl.items()})
            ns.update({k.split('@')[0]: v for k, v in inp.pub.items() if '@' not in k or k.endswith('@' + label)})
            try:
                r = eval(f["region"], {"__builtins__": {}}, ns)
            except NameError:
                continue
            res.append((f["id"], r))
        return res

    return regions


def _worker(task):
    modname, kernel, shape, tier, timeout_ms, max_paths, budget_s = task
    t0 = time.time()
    try:
        from symx import core

        mod = importlib.import_module(modname)
        if hasattr(mod, "setup"):
            mod.setup()
        h = mod.harness(kernel, shape)
        findings = load_findings(mod.PROPERTY)
        res = core.explore(
            h, max_paths=max_paths, timeout_ms=timeout_ms,
            known_regions=_region_fn(findings, kernel, shape) if findings else None,
            deadline=t0 + budget_s,
        )
        res.update(kernel=kernel, shape=shape, error=None)
        return res
    except BaseException as e:  # Realise, Inconclusive, bugs
        return dict(kernel=kernel, shape=shape, error="%s: %s" % (type(e).__name__, e),
                    tb=traceback.format_exc(limit=12), stats=dict(paths=0, queries=0, solver_s=0.0,
                    obligations=0, discharged=0, nontrivial_paths=0, witnesses=0, infeasible=0,
                    wall_s=time.time() - t0), cex=[], functions=[], samples=[], exhausted=False)


REPLAY_TMPL = '''#!/verif/.venv/bin/python
# Replay of a solver counterexample against the unmodified code (no shims).
# property={prop} kernel={kernel} label={label}
import sys
sys.path[:0] = [{repo!r} + "/pulser-core", {repo!r} + "/pulser-simulation", "/verif"]
from symx.replay import replay
sys.exit(replay(check={check!r}, kernel={kernel!r}, shape={shape!r},
                assignment={assignment!r}, label={label!r}))
'''


def write_replay(prop, n, modname, kernel, shape, cex) -> str:
    d = os.path.join(VERIF, "evidence", "replays")
    os.makedirs(d, exist_ok=True)
    path = os.path.join(d, "%s_%03d.py" % (prop, n))
    with open(path, "w") as f:
        f.write(REPLAY_TMPL.format(repo=REPO_ROOT, prop=prop, check=modname, kernel=kernel, shape=shape,
                                   assignment=cex["assignment"], label=cex["label"]))
    return path


def run_replay(path: str) -> tuple[bool, str]:
    env = dict(os.environ)
    env["PYTHONPATH"] = ":".join(REPO_PATHS + [VERIF])
    try:
        p = subprocess.run([sys.executable, path], capture_output=True, text=True, timeout=600, env=env)
    except subprocess.TimeoutExpired:
        return False, "replay timeout"
    return p.returncode == 1, (p.stdout + p.stderr)[-2000:]


def main(argv=None) -> int:
    ap = argparse.ArgumentParser()
    ap.add_argument("prop")
    ap.add_argument("--tier", default=os.environ.get("VERIF_TIER", "quick"))
    ap.add_argument("--only", default=None)
    ap.add_argument("--jobs", type=int, default=int(os.environ.get("VERIF_JOBS", "16")))
    ap.add_argument("--no-evidence", action="store_true")
    args = ap.parse_args(argv)
    prop = args.prop.upper()
    tier = args.tier if args.tier in ("quick", "thorough") else "quick"
    seed = int(os.environ.get("VERIF_SEED", "0") or 0)
    t0 = time.time()

    import pulser

    if not pulser.__file__.startswith(REPO_ROOT + "/"):
        print("HARNESS-ERROR pulser imported from %s, not %s" % (pulser.__file__, REPO_ROOT))
        return 2
    modname = "checks." + prop.lower()
    mod = importlib.import_module(modname)
    tasks = []
    timeout_ms = getattr(mod, "TIMEOUT_MS", {"quick": 20000, "thorough": 60000})[tier]
    budget_s = getattr(mod, "SHAPE_BUDGET_S", {"quick": 240, "thorough": 1500})[tier]
    for kernel, shape in mod.kernels(tier):
        if args.only and not kernel.startswith(args.only):
            continue
        tasks.append((modname, kernel, shape, tier, timeout_ms, 10**6, budget_s))
    if seed:
        import random

        random.Random(seed).shuffle(tasks)
    results = []
    if args.jobs <= 1 or len(tasks) <= 1:
        results = [_worker(t) for t in tasks]
    else:
        ctxmp = mp.get_context("fork")
        with ctxmp.Pool(min(args.jobs, len(tasks))) as pool:
            for r in pool.imap_unordered(_worker, tasks, chunksize=1):
                results.append(r)

    # ---- aggregate
    findings = {f["id"]: f for f in load_findings(prop)}
    agg = dict(paths=0, queries=0, solver_s=0.0, obligations=0, discharged=0, nontrivial_paths=0,
               witnesses=0, infeasible=0, decisions=0)
    errors, not_exhausted, vacuous = [], [], []
    funcs: set = set()
    samples = []
    per_kernel: dict = {}
    violations = []  # (replay path, label, kernel)
    known_hit: dict = {}
    nonrepro = []
    n_replay = 0
    pending = []
    skipped_replays = 0
    unreachable_ok = 0
    for r in results:
        for k in agg:
            agg[k] += r["stats"].get(k, 0)
        pk = per_kernel.setdefault(r["kernel"], dict(shapes=0, paths=0, queries=0, obligations=0, solver_s=0.0))
        pk["shapes"] += 1
        for k in ("paths", "queries", "obligations", "solver_s"):
            pk[k] += r["stats"].get(k, 0)
        funcs.update(r["functions"])
        if r["error"]:
            errors.append(dict(kernel=r["kernel"], shape=r["shape"], error=r["error"], tb=r.get("tb")))
            continue
        if not r["exhausted"]:
            not_exhausted.append(dict(kernel=r["kernel"], shape=r["shape"]))
        if r["stats"]["witnesses"] == 0:
            exp = getattr(mod, "expected_unreachable", None)
            if exp is not None and exp(r["kernel"], r["shape"]):
                unreachable_ok += 1
            else:
                vacuous.append(dict(kernel=r["kernel"], shape=r["shape"]))
        if len(samples) < 8 and r["samples"]:
            s = dict(r["samples"][0])
            s.update(kernel=r["kernel"], shape=r["shape"])
            samples.append(s)
        for cex in r["cex"]:
            pending.append((r, cex))

    # concrete twins of witness inputs (see symx/twin.py): at most MAX_TWINS shapes, spread evenly
    twin_fails, twins_run = [], 0
    if getattr(mod, "TWINS", True) and not os.environ.get("VERIF_NO_TWINS"):
        MAX_TWINS = {"quick": 120, "thorough": 400}[tier]
        cand = [r for r in results if not r["error"] and r["samples"]]
        if len(cand) > MAX_TWINS:
            step = len(cand) / float(MAX_TWINS)
            cand = [cand[int(i * step)] for i in range(MAX_TWINS)]
        items = [[r["kernel"], r["shape"], r["samples"][0]["inputs"], sorted({c["label"] for c in r["cex"]})] for r in cand]
        if items:
            d = os.path.join(VERIF, "evidence", "replays")
            os.makedirs(d, exist_ok=True)
            tw = os.path.join(d, "%s_twins.json" % prop)
            json.dump(items, open(tw, "w"))
            env = dict(os.environ)
            env["PYTHONPATH"] = ":".join(REPO_PATHS + [VERIF])
            try:
                pr = subprocess.run([sys.executable, "-m", "symx.twin", modname, tw], capture_output=True, text=True,
                                    timeout=1800, env=env, cwd=VERIF)
                out = pr.stdout
            except subprocess.TimeoutExpired:
                out = ""
            for line in out.splitlines():
                if line.startswith("TWIN-FAIL "):
                    twin_fails.append(json.loads(line[len("TWIN-FAIL "):]))
                elif line.startswith("TWINS-RUN "):
                    twins_run = int(line.split()[1])
            if not twins_run and pr.returncode != 0:
                errors.append(dict(kernel="twins", shape={}, error="twin runner failed: " + (pr.stderr or "")[-300:], tb=None))
    seen_tw = set()
    for tf in twin_fails:
        key = (tf["kernel"], tf["label"])
        if key in seen_tw:
            continue
        seen_tw.add(key)
        # goes through the ordinary replay (which confirms it on the unshimmed code) as an unknown counterexample
        fake_r = dict(kernel=tf["kernel"], shape=tf["shape"])
        pending.append((fake_r, dict(label=tf["label"], assignment=tf["assignment"], known=None, notes=["concrete twin of a path witness"])))

    # replay: at most MAXR per (kernel, label, known) class, stop replaying a
    # class once one member has reproduced
    MAXR = 3
    tried: dict = {}
    done_classes: set = set()
    for r, cex in pending:
        cls = (r["kernel"], cex["label"], cex.get("known"))
        if cls in done_classes or tried.get(cls, 0) >= MAXR:
            skipped_replays += 1
            continue
        tried[cls] = tried.get(cls, 0) + 1
        n_replay += 1
        path = write_replay(prop, n_replay, modname, r["kernel"], r["shape"], cex)
        ok, out = run_replay(path)
        if not ok:
            nonrepro.append(dict(kernel=r["kernel"], shape=r["shape"], label=cex["label"],
                                 assignment=cex["assignment"], replay=path, output=out[-600:],
                                 known=cex.get("known")))
            continue
        done_classes.add(cls)
        if cex.get("known"):
            known_hit.setdefault(cex["known"], dict(replay=path, kernel=r["kernel"], label=cex["label"],
                                                    assignment=cex["assignment"]))
        else:
            violations.append(dict(replay=path, kernel=r["kernel"], label=cex["label"], shape=r["shape"],
                                   assignment=cex["assignment"]))
    # a class whose models never reproduced although some were tried
    nonrepro = [x for x in nonrepro if (x["kernel"], x["label"], x.get("known")) not in done_classes]

    # a non-reproducing model of a *known* region is not an error (the region
    # over-approximates); a non-reproducing unknown model is a harness error
    hard_nonrepro = [x for x in nonrepro if not x.get("known")]
    for fid, hit in sorted(known_hit.items()):
        print("KNOWN-FINDING: property=%s %s [%s] replay=%s" % (prop, findings[fid]["what"], fid, hit["replay"]))
    seen = set()
    for v in violations:
        key = (v["kernel"], v["label"])
        if key in seen:
            continue
        seen.add(key)
        print("VIOLATION property=%s replay=%s kernel=%s label=%s inputs=%s" % (
            prop, v["replay"], v["kernel"], v["label"], json.dumps(v["assignment"])))
    for e in errors[:10]:
        print("HARNESS-ERROR kernel=%s shape=%s %s" % (e["kernel"], json.dumps(e["shape"]), e["error"]))
        if e.get("tb") and os.environ.get("VERIF_DEBUG"):
            print(e["tb"])
    for e in not_exhausted[:5]:
        print("INCONCLUSIVE (not exhausted) kernel=%s shape=%s" % (e["kernel"], json.dumps(e["shape"])))
    for e in vacuous[:5]:
        print("HARNESS-ERROR vacuous shape (no reachable path) kernel=%s shape=%s" % (e["kernel"], json.dumps(e["shape"])))
    for e in hard_nonrepro[:5]:
        print("HARNESS-ERROR non-reproducing model kernel=%s label=%s inputs=%s replay=%s" % (
            e["kernel"], e["label"], json.dumps(e["assignment"]), e["replay"]))

    wall = time.time() - t0
    if violations:
        rc = 1
    elif errors or not_exhausted or vacuous or hard_nonrepro:
        rc = 2
    else:
        rc = 0

    if not args.no_evidence and not args.only:
        import z3

        ev = dict(
            property_id=prop, tier=tier, seed=seed, level="model_checking",
            wall_s=round(wall, 2), violations=len(seen),
            coverage=dict(
                evaluations=int(agg["queries"]),
                distinct_nontrivial=int(agg["nontrivial_paths"]),
                rule=("Each 'shape' (a bound: structure of the state/program, concrete clock etc.) is explored "
                      "path-exhaustively by running the real /repo functions on z3-backed proxies; "
                      "evaluations = solver queries; distinct_nontrivial = distinct feasible paths that carried "
                      "at least one obligation that is a formula over solver variables (not a concrete boolean), decided by z3 "
                      "(simplifier or full query)."),
                samples=samples,
                # model-checking view: a state = the end state of one explored symbolic path (a path condition with all
                # its values), a transition = one branch decision taken by the real code on the way
                states=max(1, int(agg["paths"])), transitions=max(1, int(agg["decisions"])),
                traces_validated_against_impl=int(n_replay + twins_run),
                obligations=int(agg["obligations"]), discharged=int(agg["discharged"]),
                shapes=len(results), shapes_expected_unreachable=unreachable_ok, paths=int(agg["paths"]), infeasible_paths=int(agg["infeasible"]),
                reachability_witnesses=int(agg["witnesses"]),
                solver_s=round(agg["solver_s"], 2), per_kernel=per_kernel,
                functions_encoded=sorted(funcs),
                bounds=getattr(mod, "BOUNDS", {}).get(tier, getattr(mod, "BOUNDS", {})),
                outside_claim=getattr(mod, "OUTSIDE", []),
                float_mode=getattr(mod, "FLOAT_MODE", ""),
                exhaustive=(rc == 0),
                explanation=("bounded symbolic execution of the implementation; exhaustive over all paths and "
                             "all values inside each shape's bounds"),
                known_findings_hit=sorted(known_hit), counterexample_models=len(pending), replays_run=n_replay, concrete_twins_run=twins_run,
                counterexamples=[dict(kernel=v["kernel"], label=v["label"], inputs=v["assignment"],
                                      replay=v["replay"]) for v in violations[:20]],
                inconclusive=dict(errors=errors[:5], not_exhausted=not_exhausted[:5], vacuous=vacuous[:5],
                                  non_reproducing=hard_nonrepro[:5]),
                engine_versions=dict(z3=z3.get_version_string(), python=sys.version.split()[0]),
            ),
            assumptions=getattr(mod, "STUBS", []),
        )
        os.makedirs(os.path.join(VERIF, "evidence"), exist_ok=True)
        with open(os.path.join(VERIF, "evidence", prop + ".json"), "w") as f:
            json.dump(ev, f, indent=1, default=str)
    print("%s tier=%s shapes=%d paths=%d queries=%d obligations=%d discharged=%d solver_s=%.1f wall_s=%.1f rc=%d" % (
        prop, tier, len(results), agg["paths"], agg["queries"], agg["obligations"], agg["discharged"],
        agg["solver_s"], wall, rc))
    return rc


if __name__ == "__main__":
    sys.exit(main())
