"""Complex proxy: a pair (re, im) whose parts are floats or SReal terms (exact reals)."""
from __future__ import annotations

import builtins
from typing import Any

import numpy as real_np

from . import core
from .core import AND, NOT, SBool, SInt, SReal, _np_item, is_sym


def _part(x: Any) -> Any:
    x = _np_item(x)
    if isinstance(x, (SReal, SInt)):
        return x
    if isinstance(x, SBool):
        return x._as_int()
    return builtins.float(x)


class SCplx:
    __slots__ = ("re", "im")

    def __init__(self, re: Any, im: Any = 0.0):
        self.re = _part(re)
        self.im = _part(im)

    @staticmethod
    def lift(o: Any) -> "SCplx | None":
        if isinstance(o, SCplx):
            return o
        o = _np_item(o)
        if isinstance(o, SCplx):
            return o
        if isinstance(o, (builtins.complex, real_np.complexfloating)):
            return SCplx(builtins.float(o.real), builtins.float(o.imag))
        if isinstance(o, (SReal, SInt, SBool, builtins.int, builtins.float, real_np.floating, real_np.integer)):
            return SCplx(o, 0.0)
        return None

    # -- arithmetic
    def __add__(s, o):
        o = SCplx.lift(o)
        return NotImplemented if o is None else SCplx(s.re + o.re, s.im + o.im)

    __radd__ = __add__

    def __sub__(s, o):
        o = SCplx.lift(o)
        return NotImplemented if o is None else SCplx(s.re - o.re, s.im - o.im)

    def __rsub__(s, o):
        o = SCplx.lift(o)
        return NotImplemented if o is None else SCplx(o.re - s.re, o.im - s.im)

    def __mul__(s, o):
        o = SCplx.lift(o)
        if o is None:
            return NotImplemented
        return SCplx(_mul(s.re, o.re) - _mul(s.im, o.im), _mul(s.re, o.im) + _mul(s.im, o.re))

    __rmul__ = __mul__

    def __neg__(s):
        return SCplx(-s.re, -s.im)

    def __pos__(s):
        return s

    def conjugate(s):
        return SCplx(s.re, -s.im)

    conj = conjugate

    @property
    def real(s):
        return s.re

    @property
    def imag(s):
        return s.im

    # -- comparison
    def __eq__(s, o):  # type: ignore[override]
        o = SCplx.lift(o)
        if o is None:
            return NotImplemented
        return AND(s.re == o.re, s.im == o.im)

    def __ne__(s, o):  # type: ignore[override]
        r = s.__eq__(o)
        return r if r is NotImplemented else NOT(r)

    def __hash__(s):
        return 0

    def __bool__(s):
        return bool(s != 0)

    def __complex__(s):
        raise core.Realise("complex() of a symbolic complex")

    def __repr__(s):
        return "SCplx(%r, %r)" % (s.re, s.im)


def _mul(a, b):
    # exact zero annihilates (keeps terms small; 0.0 * x == 0 for finite x)
    if not is_sym(a) and a == 0:
        return 0.0
    if not is_sym(b) and b == 0:
        return 0.0
    return a * b


def parts(x: Any) -> tuple:
    """(re, im) of a number, proxy or complex proxy."""
    c = SCplx.lift(x)
    if c is None:
        raise TypeError(type(x))
    return c.re, c.im
