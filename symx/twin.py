"""Concrete twins: the harness of a shape is run on the UNSHIMMED code with the witness inputs the solver produced for one
of the shape's paths; every obligation the symbolic run discharged on that shape has to hold on the concrete run too.
(Validates the symbolic execution against the implementation and catches code whose behaviour on proxies differs from
its behaviour on numbers, e.g. comparisons of raw buffers.)

usage: python -m symx.twin <check module> <json file with [[kernel, shape, inputs, [labels with symbolic counterexamples]], ...]>
prints one line per failing obligation: TWIN-FAIL <json {kernel, shape, label, assignment}>"""
from __future__ import annotations

import importlib
import json
import sys
import warnings


def main() -> int:
    import pulser

    from symx import core

    assert pulser.__file__.startswith(core.REPO_ROOT + "/"), pulser.__file__
    warnings.simplefilter("ignore")
    mod = importlib.import_module(sys.argv[1])
    items = json.load(open(sys.argv[2]))
    if hasattr(mod, "setup_concrete"):
        mod.setup_concrete()
    n = 0
    for kernel, shape, inputs, skip in items:
        try:
            h = mod.harness(kernel, shape)
            res = core.run_concrete(h, inputs)
        except BaseException as e:  # noqa: BLE001  (Infeasible / Realise / harness exceptions: the twin says nothing)
            print("TWIN-SKIP %s %s" % (kernel, type(e).__name__))
            continue
        n += 1
        if res["violated_assumption"]:
            continue
        for label, ok in res["results"].items():
            if not ok and label not in skip:
                print("TWIN-FAIL " + json.dumps(dict(kernel=kernel, shape=shape, label=label, assignment=inputs)))
    print("TWINS-RUN %d" % n)
    return 0


if __name__ == "__main__":
    sys.exit(main())
