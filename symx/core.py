"""symx core: z3-backed proxy values, replay-based DFS explorer.

The REAL functions of /repo are executed in CPython on these proxies.  The
only place execution forks is ``SBool.__bool__`` (via ``Ctx.branch``).  When
the DFS stack is empty every feasible path inside the shape's bounds has been
executed.  Obligations returned by the harness are decided by the solver under
the path condition.

The same harness also runs in *concrete* mode (plain ints/floats, no shims):
that is how a solver model is replayed against the unmodified code before it
is reported.
"""
from __future__ import annotations

import builtins
import fractions
import math
import time
from typing import Any, Callable

import z3

Fraction = fractions.Fraction


class Realise(BaseException):
    """A proxy reached a place where CPython needs a machine value."""


class Infeasible(BaseException):
    """The assumptions made on this path are unsatisfiable."""


class Inconclusive(BaseException):
    """The solver answered unknown (after retries)."""


class PathCap(BaseException):
    pass


# --------------------------------------------------------------------------
# context
# --------------------------------------------------------------------------

DEFAULT_TIMEOUT_MS = 20000


import os as _os

REPO_ROOT = _os.environ.get("VERIF_REPO", "/repo")  # only tools/seed_regress.py overrides this (scratch copy of /repo)

HASH_ZERO = [False]  # see DESIGN §2: proxies hash to 0 (== hash(0.0)) when a harness enables it


def _proxy_hash(kind: str) -> int:
    if HASH_ZERO[0]:
        return 0
    raise Realise("hash(%s)" % kind)


class Ctx:
    cur: "Ctx | None" = None

    def __init__(self, forced: list, timeout_ms: int = DEFAULT_TIMEOUT_MS):
        self.solver = z3.Solver()
        self.solver.set("timeout", timeout_ms)
        self.timeout_ms = timeout_ms
        self.forced = forced
        self.trace: list[tuple[bool, bool]] = []
        self.n_queries = 0
        self.t_solver = 0.0
        self.model: z3.ModelRef | None = None
        self._last_model: z3.ModelRef | None = None
        self.inputs: dict[str, tuple[str, Any]] = {}  # name -> (kind, term/meta)
        self.notes: list[str] = []  # e.g. non-finite flags
        self.fresh_n = 0
        self.assumptions: list[Any] = []

    # ---- solver access
    def _check(self, *extra: Any) -> str:
        t = time.time()
        r = self.solver.check(*extra)
        self.t_solver += time.time() - t
        self.n_queries += 1
        if r == z3.unknown:
            # retry on a fresh non-incremental solver
            s2 = z3.Solver()
            s2.set("timeout", self.timeout_ms * 3)
            s2.add(self.solver.assertions())
            for e in extra:
                s2.add(e)
            t = time.time()
            r2 = s2.check()
            self.t_solver += time.time() - t
            self.n_queries += 1
            if r2 == z3.unknown:
                raise Inconclusive(
                    "solver unknown: %s" % self.solver.reason_unknown()
                )
            if r2 == z3.sat:
                self._last_model = s2.model()
            return str(r2)
        if r == z3.sat:
            self._last_model = self.solver.model()
        return str(r)

    def branch(self, cond: Any) -> bool:
        cond = z3.simplify(cond)
        if z3.is_true(cond):
            return True
        if z3.is_false(cond):
            return False
        i = len(self.trace)
        if i < len(self.forced):
            taken, other = self.forced[i]
            self.solver.add(cond if taken else z3.Not(cond))
            self.trace.append((taken, other))
            self.model = None
            return taken
        can_t = can_f = None
        m_t = m_f = None
        if self.model is not None:
            try:
                v = self.model.eval(cond, model_completion=True)
                if z3.is_true(v):
                    can_t, m_t = True, self.model
                elif z3.is_false(v):
                    can_f, m_f = True, self.model
            except z3.Z3Exception:
                pass
        if can_t is None:
            can_t = self._check(cond) == "sat"
            m_t = self._last_model if can_t else None
        if can_f is None:
            can_f = self._check(z3.Not(cond)) == "sat"
            m_f = self._last_model if can_f else None
        if not can_t and not can_f:
            raise Infeasible()
        taken = bool(can_t)
        other = bool(can_t and can_f)
        self.solver.add(cond if taken else z3.Not(cond))
        self.model = m_t if taken else m_f
        self.trace.append((taken, other))
        return taken

    def assume(self, cond: Any) -> None:
        cond = z3.simplify(_b(cond))
        if z3.is_true(cond):
            return
        self.solver.add(cond)
        self.assumptions.append(cond)
        self.model = None
        if z3.is_false(cond):
            raise Infeasible()

    def fresh(self, prefix: str) -> str:
        self.fresh_n += 1
        return "%s!%d" % (prefix, self.fresh_n)


def ctx() -> Ctx:
    c = Ctx.cur
    if c is None:
        raise RuntimeError("no symbolic context")
    return c


# --------------------------------------------------------------------------
# conversions
# --------------------------------------------------------------------------


def _np_item(x: Any) -> Any:
    import numpy as np

    if isinstance(x, (np.generic,)):
        return x.item()
    if isinstance(x, np.ndarray) and x.ndim == 0:
        return x.item()
    return x


def _is_nonfinite(x: Any) -> bool:
    return isinstance(x, float) and not math.isfinite(x)


def _i(x: Any) -> Any:
    """Python/np int or SInt -> z3 Int term."""
    if isinstance(x, SInt):
        return x.e
    x = _np_item(x)
    if isinstance(x, SInt):
        return x.e
    if isinstance(x, bool):
        return z3.IntVal(int(x))
    if isinstance(x, builtins.int):
        return z3.IntVal(x)
    raise TypeError(type(x))


def ratval(x: Any) -> Any:
    f = Fraction(x)
    if f.denominator == 1:
        return z3.RealVal(f.numerator)
    return z3.RealVal("%d/%d" % (f.numerator, f.denominator))


def _r(x: Any) -> Any:
    """number or proxy -> z3 Real term (exact value of the double)."""
    if isinstance(x, SReal):
        return x.e
    if isinstance(x, SInt):
        return z3.ToReal(x.e)
    x = _np_item(x)
    if isinstance(x, SReal):
        return x.e
    if isinstance(x, SInt):
        return z3.ToReal(x.e)
    if isinstance(x, SBool):
        return z3.If(x.e, z3.RealVal(1), z3.RealVal(0))
    if isinstance(x, bool):
        return z3.RealVal(int(x))
    if isinstance(x, builtins.int):
        return z3.RealVal(x)
    if isinstance(x, builtins.float):
        if not math.isfinite(x):
            raise TypeError("non-finite")
        return ratval(x)
    if isinstance(x, Fraction):
        return ratval(x)
    raise TypeError(type(x))


def _b(x: Any) -> Any:
    if isinstance(x, SBool):
        return x.e
    x = _np_item(x)
    if isinstance(x, SBool):
        return x.e
    if isinstance(x, (bool, builtins.int)):
        return z3.BoolVal(bool(x))
    if z3.is_expr(x):
        return x
    raise TypeError(type(x))


def is_sym(x: Any) -> bool:
    return isinstance(x, (SInt, SReal, SBool)) or type(x).__name__ == "SSqrt"


# --------------------------------------------------------------------------
# SBool
# --------------------------------------------------------------------------


class SBool:
    __slots__ = ("e",)

    def __init__(self, e: Any):
        self.e = e

    def __bool__(self) -> bool:
        return ctx().branch(self.e)

    def __and__(self, o: Any) -> "SBool":
        try:
            return SBool(z3.And(self.e, _b(o)))
        except TypeError:
            return NotImplemented

    __rand__ = __and__

    def __or__(self, o: Any) -> "SBool":
        try:
            return SBool(z3.Or(self.e, _b(o)))
        except TypeError:
            return NotImplemented

    __ror__ = __or__

    def __xor__(self, o: Any) -> "SBool":
        return SBool(z3.Xor(self.e, _b(o)))

    __rxor__ = __xor__

    def __invert__(self) -> "SBool":
        return SBool(z3.Not(self.e))

    def __eq__(self, o: Any) -> "SBool":  # type: ignore[override]
        try:
            return SBool(self.e == _b(o))
        except TypeError:
            return NotImplemented

    def __ne__(self, o: Any) -> "SBool":  # type: ignore[override]
        try:
            return SBool(self.e != _b(o))
        except TypeError:
            return NotImplemented

    def __hash__(self) -> int:
        raise Realise("hash(SBool)")

    # arithmetic use of booleans (2*tr*in_eom_mode)
    def _as_int(self) -> "SInt":
        return SInt(z3.If(self.e, z3.IntVal(1), z3.IntVal(0)))

    def __mul__(self, o: Any) -> Any:
        return self._as_int() * o

    __rmul__ = __mul__

    def __add__(self, o: Any) -> Any:
        return self._as_int() + o

    __radd__ = __add__

    def __index__(self) -> int:
        raise Realise("index(SBool)")

    def __repr__(self) -> str:
        return "<SBool %s>" % self.e

    def __format__(self, spec: str) -> str:
        return "<symbool>"


# --------------------------------------------------------------------------
# SInt
# --------------------------------------------------------------------------


def _pos_const(o: Any) -> int | None:
    o = _np_item(o)
    if isinstance(o, builtins.int) and not isinstance(o, bool) and o > 0:
        return o
    return None


class SInt:
    __slots__ = ("e",)

    def __init__(self, e: Any):
        self.e = e

    # -- arithmetic
    def _bin(self, o: Any, f: Callable, refl: bool = False) -> Any:
        o = _np_item(o)
        if isinstance(o, SReal) or isinstance(o, builtins.float):
            a = SReal(z3.ToReal(self.e))
            return f(o, a) if refl else f(a, o)
        if isinstance(o, SBool):
            o = o._as_int()
        try:
            ov = _i(o)
        except TypeError:
            return NotImplemented
        return SInt(f(ov, self.e) if refl else f(self.e, ov))

    def __add__(s, o):
        return s._bin(o, lambda a, b: a + b)

    def __radd__(s, o):
        return s._bin(o, lambda a, b: a + b, True)

    def __sub__(s, o):
        return s._bin(o, lambda a, b: a - b)

    def __rsub__(s, o):
        return s._bin(o, lambda a, b: a - b, True)

    def __mul__(s, o):
        return s._bin(o, lambda a, b: a * b)

    def __rmul__(s, o):
        return s._bin(o, lambda a, b: a * b, True)

    def __neg__(s):
        return SInt(-s.e)

    def __pos__(s):
        return s

    def __abs__(s):
        return SInt(z3.If(s.e >= 0, s.e, -s.e))

    def _divmod_guard(self, o: Any) -> Any:
        """z3 div/mod are Euclidean; equal to Python's for a positive
        divisor. A symbolic divisor is asserted positive on this path."""
        c = _pos_const(o)
        if c is not None:
            return z3.IntVal(c)
        if isinstance(o, SInt):
            if not bool(o > 0):
                raise Realise("SInt div/mod by a non-positive divisor")
            return o.e
        return None

    def __floordiv__(s, o):
        o = _np_item(o)
        if isinstance(o, (SReal, builtins.float)):
            return SReal(z3.ToReal(s.e)).__floordiv__(o)
        d = s._divmod_guard(o)
        if d is None:
            return NotImplemented
        return SInt(s.e / d)

    def __mod__(s, o):
        o = _np_item(o)
        if isinstance(o, (SReal, builtins.float)):
            return SReal(z3.ToReal(s.e)).__mod__(o)
        d = s._divmod_guard(o)
        if d is None:
            return NotImplemented
        return SInt(s.e % d)

    def __rfloordiv__(s, o):
        o = _np_item(o)
        if isinstance(o, builtins.int):
            if not bool(s > 0):
                raise Realise("int // non-positive SInt")
            return SInt(z3.IntVal(o) / s.e)
        return NotImplemented

    def __rmod__(s, o):
        o = _np_item(o)
        if isinstance(o, builtins.int):
            if not bool(s > 0):
                raise Realise("int % non-positive SInt")
            return SInt(z3.IntVal(o) % s.e)
        return NotImplemented

    def __truediv__(s, o):
        return SReal(z3.ToReal(s.e)).__truediv__(o)

    def __rtruediv__(s, o):
        return SReal(z3.ToReal(s.e)).__rtruediv__(o)

    def __pow__(s, o):
        o = _np_item(o)
        if isinstance(o, builtins.int) and 0 <= o <= 8:
            r: Any = z3.IntVal(1)
            for _ in range(o):
                r = r * s.e
            return SInt(r)
        return NotImplemented

    # -- comparison
    def _cmp(self, o: Any, f: Callable) -> Any:
        o = _np_item(o)
        if isinstance(o, SReal) or isinstance(o, builtins.float):
            if _is_nonfinite(o):
                return _nonfinite_cmp(f, self, o)
            return SBool(f(z3.ToReal(self.e), _r(o)))
        if isinstance(o, SBool):
            o = o._as_int()
        if o is None:
            return NotImplemented
        try:
            return SBool(f(self.e, _i(o)))
        except TypeError:
            return NotImplemented

    def __lt__(s, o):
        return s._cmp(o, lambda a, b: a < b)

    def __le__(s, o):
        return s._cmp(o, lambda a, b: a <= b)

    def __gt__(s, o):
        return s._cmp(o, lambda a, b: a > b)

    def __ge__(s, o):
        return s._cmp(o, lambda a, b: a >= b)

    def __eq__(s, o):  # type: ignore[override]
        r = s._cmp(o, lambda a, b: a == b)
        return False if r is NotImplemented else r

    def __ne__(s, o):  # type: ignore[override]
        r = s._cmp(o, lambda a, b: a != b)
        return True if r is NotImplemented else r

    def __hash__(s) -> int:
        return _proxy_hash("SInt")

    def __bool__(s) -> bool:
        return ctx().branch(s.e != 0)

    def __int__(s):
        raise Realise("int(SInt)")

    def __index__(s):
        raise Realise("index(SInt)")

    def __float__(s):
        raise Realise("float(SInt)")

    def __round__(s, n=None):
        return s

    def __trunc__(s):
        return s

    def __floor__(s):
        return s

    def __ceil__(s):
        return s

    def rint(s):
        return s

    def conjugate(s):
        return s

    @property
    def real(s):
        return s

    def __format__(s, spec: str) -> str:
        return "<symint>"

    def __repr__(s) -> str:
        return "<SInt %s>" % s.e


# --------------------------------------------------------------------------
# SReal
# --------------------------------------------------------------------------

NAN = float("nan")
INF = float("inf")


def _nonfinite_cmp(f: Callable, a: Any, o: float, refl: bool = False) -> bool:
    """Comparison of a (finite) proxy with nan/inf: concrete IEEE answer."""
    # probe f with concrete stand-ins: proxy := 0.0 (any finite value gives
    # the same answer against inf/nan)
    x = 0.0
    try:
        r = f(o, x) if refl else f(x, o)
    except Exception:  # pragma: no cover
        raise Realise("non-finite comparison")
    return bool(r)


def _pyfloor(e: Any) -> Any:
    return z3.ToInt(e)


class SReal:
    """A float modelled as an exact real (see DESIGN §3, R-mode)."""

    __slots__ = ("e",)

    def __init__(self, e: Any):
        self.e = e

    def _bin(self, o: Any, f: Callable, refl: bool = False, name: str = "") -> Any:
        o = _np_item(o)
        if isinstance(o, builtins.complex):
            from .cplx import SCplx

            a, b = SCplx(self, 0.0), SCplx.lift(o)
            if refl:
                a, b = b, a
            return {"add": a.__add__, "sub": a.__sub__, "mul": a.__mul__}[name](b)
        if _is_nonfinite(o):
            return _nonfinite_arith(name, self, o, refl)
        try:
            ov = _r(o)
        except TypeError:
            return NotImplemented
        return SReal(f(ov, self.e) if refl else f(self.e, ov))

    def __add__(s, o):
        return s._bin(o, lambda a, b: a + b, name="add")

    def __radd__(s, o):
        return s._bin(o, lambda a, b: a + b, True, name="add")

    def __sub__(s, o):
        return s._bin(o, lambda a, b: a - b, name="sub")

    def __rsub__(s, o):
        return s._bin(o, lambda a, b: a - b, True, name="sub")

    def __mul__(s, o):
        return s._bin(o, lambda a, b: a * b, name="mul")

    def __rmul__(s, o):
        return s._bin(o, lambda a, b: a * b, True, name="mul")

    def __truediv__(s, o):
        o = _np_item(o)
        if _is_nonfinite(o):
            return _nonfinite_arith("div", s, o, False)
        try:
            d = _r(o)
        except TypeError:
            return NotImplemented
        return _safe_div(s.e, d)

    def __rtruediv__(s, o):
        o = _np_item(o)
        if _is_nonfinite(o):
            return _nonfinite_arith("div", s, o, True)
        try:
            n = _r(o)
        except TypeError:
            return NotImplemented
        return _safe_div(n, s.e)

    def __floordiv__(s, o):
        q = s.__truediv__(o)
        if isinstance(q, SReal):
            return SReal(z3.ToReal(z3.ToInt(q.e)))
        return q

    def __mod__(s, o):
        o = _np_item(o)
        try:
            m = _r(o)
        except TypeError:
            return NotImplemented
        return _real_mod(s.e, m)

    def __rmod__(s, o):
        o = _np_item(o)
        try:
            a = _r(o)
        except TypeError:
            return NotImplemented
        return _real_mod(a, s.e)

    def __pow__(s, o):
        o = _np_item(o)
        if isinstance(o, builtins.float) and o == int(o):
            o = int(o)
        if isinstance(o, builtins.int) and 0 <= o <= 8:
            r: Any = z3.RealVal(1)
            for _ in range(o):
                r = r * s.e
            return SReal(r)
        if isinstance(o, builtins.int) and -8 <= o < 0:
            return 1.0 / s.__pow__(-o)
        raise Realise("SReal ** %r" % (o,))

    def __rpow__(s, o):
        raise Realise("%r ** SReal" % (o,))

    def __neg__(s):
        return SReal(-s.e)

    def __pos__(s):
        return s

    def __abs__(s):
        return SReal(z3.If(s.e >= 0, s.e, -s.e))

    def _cmp(self, o: Any, f: Callable) -> Any:
        o = _np_item(o)
        if _is_nonfinite(o):
            return _nonfinite_cmp(f, self, o)
        if o is None:
            return NotImplemented
        try:
            return SBool(f(self.e, _r(o)))
        except TypeError:
            return NotImplemented

    def __lt__(s, o):
        return s._cmp(o, lambda a, b: a < b)

    def __le__(s, o):
        return s._cmp(o, lambda a, b: a <= b)

    def __gt__(s, o):
        return s._cmp(o, lambda a, b: a > b)

    def __ge__(s, o):
        return s._cmp(o, lambda a, b: a >= b)

    def __eq__(s, o):  # type: ignore[override]
        r = s._cmp(o, lambda a, b: a == b)
        return False if r is NotImplemented else r

    def __ne__(s, o):  # type: ignore[override]
        r = s._cmp(o, lambda a, b: a != b)
        return True if r is NotImplemented else r

    def __hash__(s) -> int:
        return _proxy_hash("SReal")

    def __bool__(s) -> bool:
        return ctx().branch(s.e != 0)

    def __float__(s):
        raise Realise("float(SReal)")

    def __int__(s):
        raise Realise("int(SReal)")

    def __index__(s):
        raise Realise("index(SReal)")

    def trunc(s) -> SInt:
        return SInt(z3.If(s.e >= 0, z3.ToInt(s.e), -z3.ToInt(-s.e)))

    def __trunc__(s):
        return s.trunc()

    def __floor__(s):
        return SInt(z3.ToInt(s.e))

    def __ceil__(s):
        return SInt(-z3.ToInt(-s.e))

    def rint(s):
        # round-half-even to integer, exact over reals
        k = z3.ToInt(s.e + z3.RealVal("1/2"))
        half = z3.ToReal(k) - s.e == z3.RealVal("1/2")
        k2 = z3.If(z3.And(half, k % 2 != 0), k - 1, k)
        return SReal(z3.ToReal(k2))

    def __round__(s, n=None):
        if n is None:
            r = s.rint()
            return SInt(z3.ToInt(r.e))
        sc = z3.RealVal(10**n)
        return SReal(SReal(s.e * sc).rint().e / sc)

    def round(s, decimals=0):
        return s.__round__(decimals)

    def conjugate(s):
        return s

    def astype(s, t):
        """numpy scalar API used as np.ceil(x).astype(int)."""
        if getattr(t, "__name__", "") == "int" or t is builtins.int:
            return s.trunc()
        return s

    @property
    def real(s):
        return s

    def sqrt(s):
        return sym_sqrt(s)

    def __format__(s, spec: str) -> str:
        return "<symreal>"

    def __repr__(s) -> str:
        return "<SReal %s>" % s.e


def _safe_div(n: Any, d: Any) -> Any:
    """n/d with IEEE semantics for a zero divisor (forks on d == 0)."""
    dz = z3.simplify(d == 0)
    if z3.is_false(dz):
        return SReal(n / d)
    if bool(SBool(dz)):
        ctx().notes.append("division by zero")
        if bool(SBool(n == 0)):
            return NAN
        return INF if bool(SBool(n > 0)) else -INF
    return SReal(n / d)


def _nonfinite_arith(name: str, a: SReal, o: float, refl: bool) -> Any:
    if math.isnan(o):
        return NAN
    if name in ("add",):
        return o
    if name == "sub":
        return o if refl else -o
    if name == "mul":
        if bool(a == 0):
            return NAN
        return o if bool(a > 0) else -o
    if name == "div":
        if refl:  # inf / a
            if bool(a == 0):
                return o
            return o if bool(a > 0) else -o
        return 0.0  # a / inf
    raise Realise("non-finite arithmetic %s" % name)


def _real_mod(a: Any, m: Any) -> SReal:
    """Python float % over exact reals, for m > 0: a - m*floor(a/m)."""
    mz = z3.simplify(m > 0)
    if not z3.is_true(mz):
        if not bool(SBool(mz)):
            raise Realise("real mod by a non-positive modulus")
    q = z3.ToInt(a / m)
    return SReal(a - m * z3.ToReal(q))


def sym_sqrt(x: Any) -> Any:
    """sqrt as a fresh y >= 0 with y*y == x (x asserted >= 0 on the path)."""
    x = _np_item(x)
    if not isinstance(x, (SReal, SInt)):
        return math.sqrt(x)
    xe = _r(x)
    c = ctx()
    if not bool(SBool(xe >= 0)):
        c.notes.append("sqrt of negative")
        return NAN
    y = z3.Real(c.fresh("sqrt"))
    c.solver.add(y >= 0, y * y == xe)
    c.model = None
    return SReal(y)


# --------------------------------------------------------------------------
# SFix: decimal fixed point (D-mode)
# --------------------------------------------------------------------------


def _dec(x: Any) -> tuple[int, int] | None:
    """python number -> (k, p) with x == k/10^p as a short decimal."""
    x = _np_item(x)
    if isinstance(x, bool):
        return None
    if isinstance(x, builtins.int):
        return (x, 0)
    if isinstance(x, builtins.float) and math.isfinite(x):
        for p in range(0, 13):
            k = builtins.round(x * 10**p)
            if k / 10**p == x:
                return (k, p)
    return None


def _pow10(x: Any) -> int | None:
    x = _np_item(x)
    if isinstance(x, bool) or not isinstance(x, (builtins.int, builtins.float)):
        return None
    for j in range(0, 16):
        if x == 10**j:
            return j
        if x == 10.0 ** (-j):
            return -j
    return None


class SFix(SReal):
    """Decimal fixed point: value = k / 10^p with k a z3 Int term."""

    __slots__ = ("k", "p")

    def __init__(self, k: Any, p: int):
        self.k = k
        self.p = p
        SReal.__init__(self, z3.ToReal(k) / (10**p) if p else z3.ToReal(k))

    @staticmethod
    def lift(o: Any) -> "SFix | None":
        o = _np_item(o)
        if isinstance(o, SFix):
            return o
        if isinstance(o, SInt):
            return SFix(o.e, 0)
        if isinstance(o, SReal):
            return None
        d = _dec(o)
        if d is None:
            return None
        return SFix(z3.IntVal(d[0]), d[1])

    def _al(self, o: Any):
        o = SFix.lift(o)
        if o is None:
            return None
        p = builtins.max(self.p, o.p)
        return self.k * 10 ** (p - self.p), o.k * 10 ** (p - o.p), p

    def _arith(self, o, f, fallback):
        if _is_nonfinite(_np_item(o)):
            return fallback(o)
        a = self._al(o)
        if a is None:
            return fallback(o)
        return SFix(f(a[0], a[1]), a[2])

    def __add__(s, o):
        return s._arith(o, lambda a, b: a + b, lambda o: SReal.__add__(s, o))

    def __radd__(s, o):
        return s.__add__(o)

    def __sub__(s, o):
        return s._arith(o, lambda a, b: a - b, lambda o: SReal.__sub__(s, o))

    def __rsub__(s, o):
        return s._arith(o, lambda a, b: b - a, lambda o: SReal.__rsub__(s, o))

    def __neg__(s):
        return SFix(-s.k, s.p)

    def __abs__(s):
        return SFix(z3.If(s.k >= 0, s.k, -s.k), s.p)

    def __mul__(s, o):
        o = _np_item(o)
        j = _pow10(o)
        if j is not None:
            if j >= 0:
                if s.p >= j:
                    return SFix(s.k, s.p - j)
                return SFix(s.k * 10 ** (j - s.p), 0)
            return SFix(s.k, s.p - j)
        if isinstance(o, SFix) or isinstance(o, SReal):
            return SReal.__mul__(s, o)
        d = _dec(o)
        if d is not None and d[1] <= 6:
            return SFix(s.k * d[0], s.p + d[1])
        return SReal.__mul__(s, o)

    __rmul__ = __mul__

    def __truediv__(s, o):
        j = _pow10(o)
        if j is None:
            o_ = _np_item(o)
            if isinstance(o_, builtins.float) and o_ == builtins.int(o_):
                o_ = builtins.int(o_)
            if isinstance(o_, builtins.int) and not isinstance(o_, bool) and o_ != 0:
                # 1/o is a finite decimal (o = 2^a 5^b): stay in fixed point
                for q in range(1, 7):
                    if 10**q % o_ == 0:
                        return SFix(s.k * (10**q // o_), s.p + q)
            return SReal.__truediv__(s, o)
        return s.__mul__(10.0 ** (-j)) if j > 0 else s.__mul__(10 ** (-j))

    def _c(self, o, f, fallback):
        if _is_nonfinite(_np_item(o)):
            return fallback(o)
        a = self._al(o)
        if a is None:
            return fallback(o)
        return SBool(f(a[0], a[1]))

    def __lt__(s, o):
        return s._c(o, lambda a, b: a < b, lambda o: SReal.__lt__(s, o))

    def __le__(s, o):
        return s._c(o, lambda a, b: a <= b, lambda o: SReal.__le__(s, o))

    def __gt__(s, o):
        return s._c(o, lambda a, b: a > b, lambda o: SReal.__gt__(s, o))

    def __ge__(s, o):
        return s._c(o, lambda a, b: a >= b, lambda o: SReal.__ge__(s, o))

    def __eq__(s, o):  # type: ignore[override]
        return s._c(o, lambda a, b: a == b, lambda o: SReal.__eq__(s, o))

    def __ne__(s, o):  # type: ignore[override]
        return s._c(o, lambda a, b: a != b, lambda o: SReal.__ne__(s, o))

    def __hash__(s) -> int:
        return _proxy_hash("SFix")

    def round(s, decimals=0):
        if decimals >= s.p:
            return s
        m = 10 ** (s.p - decimals)
        q = s.k / m
        r = s.k % m
        h = m // 2
        up = z3.Or(r > h, z3.And(r == h, q % 2 != 0))
        return SFix(z3.If(up, q + 1, q), decimals)

    def __round__(s, n=None):
        if n is None:
            return SInt(s.round(0).k)
        return s.round(n)

    def rint(s):
        return s.round(0)

    def __repr__(s):
        return "<SFix %s / 1e%d>" % (s.k, s.p)


# --------------------------------------------------------------------------
# logic helpers usable in both symbolic and concrete mode
# --------------------------------------------------------------------------


def _anysym(xs) -> bool:
    return any(isinstance(_np_item(x), SBool) or z3.is_expr(x) for x in xs)


def AND(*xs: Any) -> Any:
    if len(xs) == 1 and isinstance(xs[0], (list, tuple)):
        xs = tuple(xs[0])
    if _anysym(xs):
        return SBool(z3.And(*[_b(x) for x in xs])) if xs else True
    return all(bool(x) for x in xs)


def OR(*xs: Any) -> Any:
    if len(xs) == 1 and isinstance(xs[0], (list, tuple)):
        xs = tuple(xs[0])
    if _anysym(xs):
        return SBool(z3.Or(*[_b(x) for x in xs])) if xs else False
    return any(bool(x) for x in xs)


def NOT(x: Any) -> Any:
    x = _np_item(x)
    if isinstance(x, SBool) or z3.is_expr(x):
        return SBool(z3.Not(_b(x)))
    return not bool(x)


def IMPLIES(a: Any, b: Any) -> Any:
    return OR(NOT(a), b)


def IFF(a: Any, b: Any) -> Any:
    if _anysym((a, b)):
        return SBool(_b(a) == _b(b))
    return bool(a) == bool(b)


def ITE(c: Any, a: Any, b: Any) -> Any:
    c = _np_item(c)
    if isinstance(c, SBool):
        a_, b_ = _np_item(a), _np_item(b)
        if isinstance(a_, SBool) or isinstance(b_, SBool):
            return SBool(z3.If(c.e, _b(a_), _b(b_)))
        if isinstance(a_, SFix) or isinstance(b_, SFix):
            fa, fb = SFix.lift(a_), SFix.lift(b_)
            if fa is not None and fb is not None:
                al = fa._al(fb)
                return SFix(z3.If(c.e, al[0], al[1]), al[2])
        if isinstance(a_, (SReal, builtins.float)) or isinstance(
            b_, (SReal, builtins.float)
        ):
            return SReal(z3.If(c.e, _r(a_), _r(b_)))
        return SInt(z3.If(c.e, _i(a_), _i(b_)))
    return a if c else b


def smax(*a: Any, **k: Any) -> Any:
    """max() that merges (If term) on proxies; builtin on concrete values."""
    if k.get("key") is not None:
        # selection by key: decided by (possibly forking) comparisons, first extremal element wins like the builtin
        items = list(a[0]) if len(a) == 1 else list(a)
        if not items:
            if "default" in k:
                return k["default"]
            raise ValueError("max() arg is an empty sequence")
        r, kr = items[0], k["key"](items[0])
        for b in items[1:]:
            kb = k["key"](b)
            if kb > kr:
                r, kr = b, kb
        return r
    if len(a) == 1 and not k:
        a = tuple(a[0])
    elif len(a) == 1 and "default" in k:
        a = tuple(a[0])
        if not a:
            return k["default"]
    if not any(is_sym(_np_item(x)) for x in a):
        return builtins.max(*a, **k) if len(a) > 1 else a[0]
    r = _np_item(a[0])
    for b in a[1:]:
        b = _np_item(b)
        r = ITE(b > r, b, r) if is_sym(b) or is_sym(r) else builtins.max(r, b)
    return r


def smin(*a: Any, **k: Any) -> Any:
    if k.get("key") is not None:
        # selection by key: decided by (possibly forking) comparisons, first extremal element wins like the builtin
        items = list(a[0]) if len(a) == 1 else list(a)
        if not items:
            if "default" in k:
                return k["default"]
            raise ValueError("min() arg is an empty sequence")
        r, kr = items[0], k["key"](items[0])
        for b in items[1:]:
            kb = k["key"](b)
            if kb < kr:
                r, kr = b, kb
        return r
    if len(a) == 1 and not k:
        a = tuple(a[0])
    elif len(a) == 1 and "default" in k:
        a = tuple(a[0])
        if not a:
            return k["default"]
    if not any(is_sym(_np_item(x)) for x in a):
        return builtins.min(*a, **k) if len(a) > 1 else a[0]
    r = _np_item(a[0])
    for b in a[1:]:
        b = _np_item(b)
        r = ITE(b < r, b, r) if is_sym(b) or is_sym(r) else builtins.min(r, b)
    return r


# --------------------------------------------------------------------------
# Inputs: the harness' source of values (symbolic or concrete)
# --------------------------------------------------------------------------


class Inputs:
    """Source of input values.  Symbolic mode creates solver variables (and
    records them so that a model can be turned into a replayable assignment);
    concrete mode reads them from a dict."""

    def __init__(self, values: dict | None = None):
        self.values = values
        self.concrete = values is not None
        self.violated_assumption: str | None = None
        self.decl: dict[str, dict] = {}
        self.pub: dict[str, Any] = {}

    def publish(self, name: str, term: Any) -> None:
        """Make a harness-computed predicate available to known-finding
        region expressions."""
        self.pub[name] = term

    # -- integers
    def int(self, name: str, lo: int | None = None, hi: int | None = None):
        if self.concrete:
            v = builtins.int(self.values[name])
            if (lo is not None and v < lo) or (hi is not None and v > hi):
                self.violated_assumption = "range of %s" % name
            return v
        c = ctx()
        t = z3.Int(name)
        self.decl[name] = {"kind": "int", "term": t, "proxy": SInt(t)}
        if lo is not None:
            c.assume(t >= lo)
        if hi is not None:
            c.assume(t <= hi)
        return SInt(t)

    def mult(self, name: str, clock: int, lo: int | None = None, hi: int | None = None):
        """A multiple of a concrete clock, introduced as clock*k."""
        if clock == 1:
            return self.int(name, lo, hi)
        if self.concrete:
            k = builtins.int(self.values[name + "/k"])
            return clock * k
        klo = None if lo is None else -((-lo) // clock)
        khi = None if hi is None else hi // clock
        k = self.int(name + "/k", klo, khi)
        return k * clock

    def real(self, name: str, lo: float | None = None, hi: float | None = None):
        if self.concrete:
            v = self.values[name]
            v = float(Fraction(v)) if isinstance(v, str) else float(v)
            return v
        c = ctx()
        t = z3.Real(name)
        self.decl[name] = {"kind": "real", "term": t, "proxy": SReal(t)}
        if lo is not None:
            c.assume(t >= _r(lo))
        if hi is not None:
            c.assume(t <= _r(hi))
        return SReal(t)

    def fix(self, name: str, p: int = 7, lo: float | None = None, hi: float | None = None):
        """Decimal fixed-point value k/10^p (D-mode)."""
        if self.concrete:
            k = builtins.int(self.values[name])
            return k / 10**p
        c = ctx()
        t = z3.Int(name)
        self.decl[name] = {"kind": "fix", "term": t, "p": p, "proxy": SFix(t, p)}
        if lo is not None:
            c.assume(t >= builtins.int(math.ceil(lo * 10**p)))
        if hi is not None:
            c.assume(t <= builtins.int(math.floor(hi * 10**p)))
        return SFix(t, p)

    def bool(self, name: str):
        if self.concrete:
            return builtins.bool(self.values[name])
        t = z3.Bool(name)
        self.decl[name] = {"kind": "bool", "term": t, "proxy": SBool(t)}
        return SBool(t)

    def choice(self, name: str, n: int) -> int:
        """A symbolic op-code in range(n), concretised by forking."""
        if self.concrete:
            return builtins.int(self.values[name])
        v = self.int(name, 0, n - 1)
        for i in range(n - 1):
            if bool(v == i):
                return i
        return n - 1

    def assume(self, cond: Any) -> None:
        if self.concrete:
            if not bool(cond):
                self.violated_assumption = "assume"
            return
        ctx().assume(cond)

    # -- model -> assignment
    def assignment(self, model: z3.ModelRef) -> dict:
        out: dict[str, Any] = {}
        for name, d in self.decl.items():
            v = model.eval(d["term"], model_completion=True)
            if d["kind"] in ("int", "fix"):
                out[name] = v.as_long()
            elif d["kind"] == "bool":
                out[name] = z3.is_true(v)
            else:
                if z3.is_algebraic_value(v):
                    v = v.approx(20)
                out[name] = "%s/%s" % (v.numerator_as_long(), v.denominator_as_long())
        return out

    def grid_constraints(self, e: int = 10) -> list:
        """Constraints putting every real input on the dyadic grid k/2^e."""
        cs = []
        for name, d in self.decl.items():
            if d["kind"] == "real":
                k = z3.Int(name + "!grid")
                cs.append(d["term"] == z3.ToReal(k) / (2**e))
            if "prefer" in d:
                cs.append(d["prefer"])
        return cs


# --------------------------------------------------------------------------
# explorer
# --------------------------------------------------------------------------


class Counterexample:
    def __init__(self, label: str, assignment: dict, notes: list[str], known: str | None = None):
        self.label = label
        self.assignment = assignment
        self.notes = notes
        self.known = known

    def to_json(self) -> dict:
        return dict(label=self.label, assignment=self.assignment, notes=self.notes, known=self.known)


def _profile_collect(store: set):
    def prof(frame, event, arg):
        if event == "call":
            co = frame.f_code
            fn = co.co_filename
            if REPO_ROOT + "/" in fn:
                mod = fn.split(REPO_ROOT + "/")[1]
                store.add("%s:%s" % (mod, co.co_qualname if hasattr(co, "co_qualname") else co.co_name))

    return prof


def explore(
    harness: Callable[[Inputs], list],
    max_paths: int = 200000,
    timeout_ms: int = DEFAULT_TIMEOUT_MS,
    known_regions: Callable[[str, Inputs], list] | None = None,
    deadline: float | None = None,
) -> dict:
    """Run ``harness`` on every feasible path.

    ``harness(inp)`` returns a list of ``(label, obligation)``; an obligation
    is an SBool / z3 Bool / bool.  ``known_regions(label, inp)`` returns a list
    of ``(finding_id, SBool region)`` for recorded findings on that label.
    """
    import sys

    forced: list = []
    stats = dict(
        paths=0, infeasible=0, queries=0, solver_s=0.0, obligations=0,
        discharged=0, nontrivial_paths=0, witnesses=0,
    )
    cexs: list[Counterexample] = []
    seen_labels: set = set()
    funcs: set = set()
    samples: list = []
    first = True
    t_start = time.time()
    exhausted = True
    while True:
        c = Ctx(forced, timeout_ms)
        Ctx.cur = c
        inp = Inputs()
        obligations = None
        try:
            if first:
                sys.setprofile(_profile_collect(funcs))
            try:
                obligations = harness(inp)
            finally:
                if first:
                    sys.setprofile(None)
                    first = False
        except Infeasible:
            stats["infeasible"] += 1
        if obligations is not None:
            stats["paths"] += 1
            nontriv = 0
            for label, ob in obligations:
                stats["obligations"] += 1
                raw = _b(ob)
                if not (z3.is_true(raw) or z3.is_false(raw)):
                    nontriv += 1  # the obligation is a formula over solver variables (not a concrete bool)
                obt = z3.simplify(raw)
                if z3.is_true(obt):
                    stats["discharged"] += 1
                    continue
                regions = known_regions(label, inp) if known_regions else []
                neg = z3.Not(obt)
                excl = [z3.Not(_b(r)) for _, r in regions]
                r = c._check(neg, *excl)
                if r == "unsat":
                    stats["discharged"] += 1
                else:
                    if label not in seen_labels:
                        seen_labels.add(label)
                        m = c._last_model
                        # prefer a model on the dyadic grid (replays exactly)
                        g = inp.grid_constraints()
                        if g:
                            try:
                                if c._check(neg, *excl, *g) == "sat":
                                    m = c._last_model
                            except Inconclusive:
                                pass
                        cexs.append(Counterexample(label, inp.assignment(m), list(c.notes)))
                for fid, reg in regions:
                    key = (label, fid)
                    if key in seen_labels:
                        continue
                    if c._check(neg, _b(reg)) == "sat":
                        seen_labels.add(key)
                        cexs.append(
                            Counterexample(label, inp.assignment(c._last_model), list(c.notes), known=fid)
                        )
            if nontriv:
                stats["nontrivial_paths"] += 1
            # reachability witness of this path (vacuity guard)
            if c.model is not None or c._check() == "sat":
                stats["witnesses"] += 1
                if len(samples) < 3:
                    m = c.model if c.model is not None else c._last_model
                    try:
                        samples.append(
                            dict(inputs=inp.assignment(m), obligations=[l for l, _ in obligations][:12],
                                 n_obligations=len(obligations))
                        )
                    except Exception:
                        pass
        stats["queries"] += c.n_queries
        stats["solver_s"] += c.t_solver
        stats["decisions"] = stats.get("decisions", 0) + len(c.trace)
        tr = c.trace
        while tr and not tr[-1][1]:
            tr.pop()
        if not tr:
            break
        if stats["paths"] + stats["infeasible"] >= max_paths or (
            deadline is not None and time.time() > deadline
        ):
            exhausted = False
            break
        taken, _ = tr.pop()
        forced = tr + [(not taken, False)]
    Ctx.cur = None
    stats["wall_s"] = time.time() - t_start
    return dict(
        stats=stats, cex=[x.to_json() for x in cexs], functions=sorted(funcs),
        samples=samples, exhausted=exhausted,
    )


def run_concrete(harness: Callable[[Inputs], list], values: dict) -> dict:
    """Run the harness on plain Python values (no context, no shims)."""
    Ctx.cur = None
    inp = Inputs(values)
    obs = harness(inp)
    res = {}
    for label, ob in obs:
        res.setdefault(label, True)
        res[label] = res[label] and bool(ob)
    return dict(results=res, violated_assumption=inp.violated_assumption)


# --------------------------------------------------------------------------
# SPhase: angles on the grid 2*pi*k/N (integer arithmetic for x % 2*pi)
# --------------------------------------------------------------------------

TWO_PI_F = Fraction(2 * math.pi)


class SPhase(SReal):
    """value = k * (2*pi / N), k a z3 Int term, 2*pi the exact double.

    Closed under + - neg, `% (2*pi)` (-> k mod N) and comparisons with
    other grid angles / 0 / 2*pi, so that phase bookkeeping stays in linear
    integer arithmetic (nested floor() over reals does not terminate)."""

    __slots__ = ("k", "N")

    def __init__(self, k: Any, N: int):
        self.k = k
        self.N = N
        SReal.__init__(self, z3.ToReal(k) * ratval(TWO_PI_F / N))

    def _lift(self, o: Any) -> Any:
        o = _np_item(o)
        if isinstance(o, SPhase):
            return o.k if o.N == self.N else None
        if isinstance(o, (SReal, SInt)):
            return None
        if isinstance(o, bool):
            return None
        if isinstance(o, (builtins.int, builtins.float)) and math.isfinite(o):
            q = Fraction(o) / (TWO_PI_F / self.N)
            if q.denominator == 1:
                return z3.IntVal(q.numerator)
        return None

    def _ar(self, o, f, fb):
        ok = self._lift(o)
        if ok is None:
            return fb(o)
        return SPhase(f(self.k, ok), self.N)

    def __add__(s, o):
        return s._ar(o, lambda a, b: a + b, lambda o: SReal.__add__(s, o))

    __radd__ = __add__

    def __sub__(s, o):
        return s._ar(o, lambda a, b: a - b, lambda o: SReal.__sub__(s, o))

    def __rsub__(s, o):
        return s._ar(o, lambda a, b: b - a, lambda o: SReal.__rsub__(s, o))

    def __neg__(s):
        return SPhase(-s.k, s.N)

    def __mod__(s, o):
        o_ = _np_item(o)
        if isinstance(o_, builtins.float) and Fraction(o_) == TWO_PI_F:
            return SPhase(s.k % s.N, s.N)
        return SReal.__mod__(s, o)

    def _cp(self, o, f, fb):
        ok = self._lift(o)
        if ok is None:
            return fb(o)
        return SBool(f(self.k, ok))

    def __lt__(s, o):
        return s._cp(o, lambda a, b: a < b, lambda o: SReal.__lt__(s, o))

    def __le__(s, o):
        return s._cp(o, lambda a, b: a <= b, lambda o: SReal.__le__(s, o))

    def __gt__(s, o):
        return s._cp(o, lambda a, b: a > b, lambda o: SReal.__gt__(s, o))

    def __ge__(s, o):
        return s._cp(o, lambda a, b: a >= b, lambda o: SReal.__ge__(s, o))

    def __eq__(s, o):  # type: ignore[override]
        return s._cp(o, lambda a, b: a == b, lambda o: SReal.__eq__(s, o))

    def __ne__(s, o):  # type: ignore[override]
        return s._cp(o, lambda a, b: a != b, lambda o: SReal.__ne__(s, o))

    def __hash__(s) -> int:
        return _proxy_hash("SPhase")

    def __repr__(s):
        return "<SPhase %s * 2pi/%d>" % (s.k, s.N)


def _inputs_phase(self, name: str, N: int = 16, lo_turns: int = -4, hi_turns: int = 4):
    """An angle 2*pi*k/N with k an integer in [lo_turns*N, hi_turns*N]."""
    if self.concrete:
        return builtins.int(self.values[name]) * (2 * math.pi / N)
    t = z3.Int(name)
    # models inside one positive turn replay exactly in binary64 (equal
    # angles are then the same float); tried first when a model is extracted
    self.decl[name] = {"kind": "int", "term": t, "proxy": SPhase(t, N), "prefer": z3.And(t >= 0, t < N)}
    ctx().assume(z3.And(t >= lo_turns * N, t <= hi_turns * N))
    return SPhase(t, N)


Inputs.phase = _inputs_phase


# --------------------------------------------------------------------------
# SSqrt: sqrt(s) + shift, compared in squared form (no root variable)
# --------------------------------------------------------------------------


class SSqrt:
    """value = sqrt(s) + shift with s >= 0 a real term.  Only what distance
    checks need: +/- a real, comparison with a real.  sqrt(s) < r  <=>
    r > 0 and s < r*r, so every comparison is a polynomial constraint."""

    __slots__ = ("s", "shift")

    def __init__(self, s: Any, shift: Any = 0):
        self.s = s if isinstance(s, SReal) else SReal(_r(s))
        self.shift = shift

    def __add__(self, o):
        o = _np_item(o)
        if isinstance(o, SSqrt):
            raise Realise("sqrt + sqrt")
        return SSqrt(self.s, self.shift + o)

    __radd__ = __add__

    def __sub__(self, o):
        o = _np_item(o)
        if isinstance(o, SSqrt):
            raise Realise("sqrt - sqrt")
        return SSqrt(self.s, self.shift - o)

    def _r(self, c):
        c = _np_item(c)
        if isinstance(c, SSqrt):
            raise Realise("sqrt compared with sqrt")
        return c - self.shift

    def __lt__(self, c):
        r = self._r(c)
        return AND(r > 0, self.s < r * r)

    def __le__(self, c):
        r = self._r(c)
        return AND(r >= 0, self.s <= r * r)

    def __gt__(self, c):
        return NOT(self.__le__(c))

    def __ge__(self, c):
        return NOT(self.__lt__(c))

    def __hash__(self):
        return _proxy_hash("SSqrt")

    def __float__(self):
        raise Realise("float(SSqrt)")

    def __repr__(self):
        return "<SSqrt sqrt(%s) + %s>" % (self.s.e, self.shift)

    def __format__(self, spec):
        return "<symsqrt>"
