"""C04 - sequence serialisation round-trips and is schema-valid.

Programs (a grammar covering every operation kind and optional argument at
default and non-default value) are built on real Sequences with symbolic
numeric arguments, serialised with the real serializer, validated with the
REAL jsonschema validator (tokens replaced by witness numbers), deserialised
with the real deserializer and compared: device, register, channels,
timeline, pulses, phase references, measurement.  Parametrized programs are
compared after build() for symbolic variable values.  Legacy
PulserEncoder/PulserDecoder: same harness.
"""
from __future__ import annotations

import json as real_json

import numpy as np

from checks import l2
from symx import core, facade, jsonfacade, stubs
from symx.core import AND, IFF, IMPLIES, ITE, NOT, OR, is_sym

PROPERTY = "C04"
STUBS = [
    "token JSON: proxies are emitted as string tokens by a subclass of the real encoder and put back after the real json.loads; for the schema "
    "validator tokens are replaced by a witness number of the right JSON type taken from a model of the path condition, so the real "
    "jsonschema.validate runs on the real document (numeric-range keywords are therefore checked for the witness only)",
    "Waveform.modulation_buffers stubbed (function of waveform data and bandwidth)",
    "phases on the 2*pi*k/360 grid (SPhase); amplitudes reals; detunings on the 1e-7 grid",
]
FLOAT_MODE = "R-mode / D-mode / SPhase as listed"
BOUNDS = {"quick": dict(programs=12, ops_per_program="<=9"), "thorough": dict(programs=16, ops_per_program="<=12", prefixes="every proper prefix of >= 2 operations of every program, both codecs")}
OUTSIDE = ["JSON number text formatting (Python repr round-trips floats)", "InterpolatedWaveform/KaiserWaveform sample values (concrete only)",
           "torch", "np.round/ceil/floor of a variable with SYMBOLIC values (covered with concrete values by template vars_round)"]

S = lambda n, k="real", **kw: dict(s=n, k=k, **kw)  # noqa: E731
E = lambda *e: dict(e=list(e))  # noqa: E731


def setup():
    l2.setup()
    jsonfacade.install()
    import pulser.json.abstract_repr.deserializer as des
    import pulser.json.abstract_repr.serializer as ser
    import pulser.parametrized.paramobj as po
    import pulser.parametrized.variable as va
    import pulser.json.coders as co

    facade.install(extra_np=(des, ser, po, va))


def setup_concrete():
    l2.setup_concrete()


def PH(inp, name):
    return inp.phase(name, 360, -1, 1)


PROGRAMS = {
    "basic": dict(device="digital", prog=[
        ["declare", "g", "rydberg_global"], ["declare", "l", "raman_local", "q0"], ["declare", "r", "rydberg_local", "q1"],
        ["add", "g", ["pulse", ["ramp", 16, S("a0", lo=0, hi=5), S("a1", lo=5, hi=10)], ["const", 16, S("d0", "fix", lo=-20, hi=20)], "PH:p0", "PH:pp0"]],
        ["add", "l", ["cp", 20, S("a2", lo=0, hi=10), S("d1", "fix", lo=-20, hi=20), "PH:p1"], "no-delay"],
        ["target", "l", "q2"], ["delay", "l", 16], ["delay", "g", 20, True],
        ["add", "l", ["pulse", ["custom", [S("c0", lo=0, hi=5), S("c1", lo=0, hi=5), S("c2", lo=0, hi=5), S("c3", lo=0, hi=5)] * 4], ["ramp", 16, -1.0, 1.0], 0.5], "wait-for-all"],
        ["align", ["g", "l"]], ["align", ["l", "r"], False], ["phase_shift", "PH:s0", ["q0", "q1"], "digital"],
        ["add", "r", ["cdet", ["blackman", 20, S("area", lo=0, hi=1)], S("d2", "fix", lo=-20, hi=20), 0.25]],
        ["measure", "digital"]]),
    # at_rest flags only matter with modulation (pending fall times): both orders of delay/align, default and non-default
    "at_rest_a": dict(device="virt", prog=[
        ["declare", "g", "ryd_glob"], ["declare", "l", "ram_loc", "q0"],
        ["add", "g", ["cp", 100, S("a0", lo=0, hi=10), 0.0, 0.0]], ["add", "l", ["cp", 40, 1.0, 0.0, 0.0], "no-delay"],
        ["delay", "l", 16], ["align", ["g", "l"], False], ["add", "g", ["cp", 40, 1.0, 0.0, 0.0]],
        # a zero-length delay is not a no-op when at_rest=True (it still waits for the pending fall time)
        ["delay", "g", 0, True], ["add", "g", ["cp", 40, 1.0, 0.0, 0.0], "no-delay"],
        ["delay", "g", 20, True], ["align", ["l", "g"]], ["add", "l", ["cp", 40, 1.0, 0.0, 0.0], "no-delay"]]),
    "at_rest_b": dict(device="virt", prog=[
        ["declare", "g", "ryd_glob"], ["declare", "l", "ram_loc", "q0"],
        ["add", "g", ["cp", 100, S("a0", lo=0, hi=10), 0.0, 0.0]], ["add", "l", ["cp", 40, 1.0, 0.0, 0.0], "no-delay"],
        ["align", ["g", "l"], True], ["add", "l", ["cp", 40, 1.0, 0.0, 0.0], "no-delay"],
        ["delay", "l", 16, True, "positional"], ["add", "g", ["cp", 40, 1.0, 0.0, 0.0], "no-delay"], ["delay", "g", 16, False, "positional"],
        ["align", ["l", "g"], False]]),
    "composite": dict(device="mock", prog=[
        ["declare", "g", "raman_global"],
        ["add", "g", ["pulse", ["composite", ["const", 5, S("a0", lo=0, hi=5)], ["ramp", 6, S("a1", lo=0, hi=5), S("a2", lo=5, hi=9)]],
                      ["composite", ["ramp", 4, -1.0, 1.0], ["const", 7, S("d0", "fix", lo=-20, hi=20)]], 1.0]],
        ["add", "g", ["camp", S("a3", lo=0, hi=5), ["ramp", 8, S("d1", "fix", lo=-9, hi=0), S("d2", "fix", lo=0, hi=9)], "PH:p0", "PH:pp0"], "min-delay"],
        ["target_index", "x", 0] if False else ["delay", "g", 7],
        ["measure", "digital"]]),
    "eom": dict(device="virt", prog=[
        # (phases concrete here: drift corrections add non-grid angles, which sends x % 2pi back to nested floor() terms)
        ["declare", "g", "ryd_glob"], ["add", "g", ["cp", 100, S("a0", lo=0, hi=10), S("d0", "fix", lo=-20, hi=20), 0.75]],
        ["enable_eom", "g", 2.0, 0.0, -1.0, {"correct_phase_drift": True}],
        ["add_eom", "g", 40, 1.25, None, {"post_phase_shift": 0.5, "protocol": "no-delay", "correct_phase_drift": True}],
        ["delay", "g", 20], ["add_eom", "g", 16, 0.0],
        ["modify_eom", "g", 1.0, 0.0, 3.0, {"correct_phase_drift": True}], ["add_eom", "g", 16, 1.0],
        ["disable_eom", "g", {"correct_phase_drift": True}], ["add", "g", ["cp", 52, 1.0, 0.0, 0.5]]]),
    # a virtual device with a default noise model
    "noise_device": dict(device="mock_noise", prog=[
        ["declare", "g", "rydberg_global"], ["add", "g", ["cp", 16, S("a0", lo=0, hi=10), S("d0", "fix", lo=-20, hi=20), 0.75]]]),
    # EOM pulses with 4, 5 and 6 POSITIONAL arguments (post_phase_shift, protocol, correct_phase_drift given by position)
    "eom_positional": dict(device="virt", prog=[
        ["declare", "g", "ryd_glob"], ["add", "g", ["cp", 100, 1.0, 0.0, 0.0]], ["enable_eom", "g", 2.0, 0.0, -1.0],
        ["add_eom_pos", "g", 40, 0.25, 0.5], ["add_eom_pos", "g", 40, 0.5, 0.0, "no-delay"], ["delay", "g", 20],
        ["add_eom_pos", "g", 16, 0.0, 0.25, "wait-for-all", True], ["add_eom_pos", "g", 16, 0.0, 0.0, "min-delay", False],
        ["disable_eom", "g"]]),
    "eom_defaults": dict(device="virt", prog=[
        ["declare", "g", "ryd_glob"],
        ["enable_eom", "g", 2.0, 0.0], ["add_eom", "g", 40, "PH:p1"], ["modify_eom", "g", 1.0, 0.0], ["disable_eom", "g"]]),
    "dmm": dict(device="mock", prog=[
        ["declare", "g", "rydberg_global"],
        ["config_dmap", {"q0": S("w0", lo=0, hi=1), "q1": 0.5, "q2": 0.0}, "dmm_0"],
        ["add", "g", ["cp", 20, S("a0", lo=0, hi=5), S("d0", "fix", lo=-20, hi=20), 0.0]],
        ["add_dmm", "dmm_0", ["ramp", 16, S("e0", "fix", lo=-10, hi=-5), S("e1", "fix", lo=-5, hi=0)]],
        ["add_dmm", "dmm_0", ["const", 12, -3.0], "wait-for-all"], ["delay", "dmm_0", 8]]),
    "slm_ising": dict(device="mock", unused_var=True, prog=[
        ["declare", "g", "rydberg_global"], ["config_slm", ["q0", "q2"]],
        ["add", "g", ["cp", 20, S("a0", lo=0.1, hi=5), S("d0", "fix", lo=-20, hi=20), 0.0]],
        ["add", "g", ["cp", 12, S("a1", lo=0, hi=5), 0.0, 1.0]]]),
    "xy": dict(device="mock", prog=[
        ["set_mag", [S("bx", lo=1, hi=5), 0.0, S("bz", lo=1, hi=40)]],
        ["declare", "mw", "mw_global"], ["config_slm", ["q1"]],
        ["add", "mw", ["cp", 20, S("a0", lo=0, hi=5), S("d0", "fix", lo=-20, hi=20), "PH:p0"]],
        ["phase_shift", "PH:s0", ["q0"], "XY"], ["add", "mw", ["cp", 12, S("a1", lo=0, hi=5), 0.0, 1.0]],
        ["phase_shift", "PH:s1", [], "XY"], ["add", "mw", ["cp", 12, 1.0, 0.0, 0.5]], ["measure", "XY"]]),
    "layout_reg": dict(device="mock", reg="layout3", prog=[
        ["declare", "l", "raman_local", ["q0", "q2"]],
        ["add", "l", ["cp", 20, S("a0", lo=0, hi=5), S("d0", "fix", lo=-20, hi=20), "PH:p0"]],
        ["target", "l", ["q1"]], ["add", "l", ["cp", 12, S("a1", lo=0, hi=5), 0.0, 1.0]]]),
    # a 3D register defined from a 3D layout with its traps in non-ascending order (qubits are addressed by index in the document)
    "layout_reg3d": dict(device="mock", reg="layout3d", prog=[
        ["declare", "l", "raman_local", ["q0", "q2"]], ["declare", "g", "rydberg_global"],
        ["add", "l", ["cp", 20, S("a0", lo=0, hi=5), S("d0", "fix", lo=-20, hi=20), "PH:p0"]],
        ["target", "l", ["q1"]], ["add", "l", ["cp", 12, S("a1", lo=0, hi=5), 0.0, 1.0]],
        ["phase_shift", 0.75, ["q0"], "digital"], ["add", "g", ["cp", 16, 1.0, 0.0, 0.0]]]),
    # an EOM whose controlled beams are listed RED first
    "eom_beams_rb": dict(device="virt_beams_rb", prog=[
        ["declare", "g", "ryd_glob"], ["enable_eom", "g", 2.0, 0.0], ["add_eom", "g", 40, 0.25], ["disable_eom", "g"]]),
    # integer qubit ids (the first one is 0): initial target 0, retarget, index-free phase shift
    "int_ids": dict(device="mock", reg="regint", prog=[
        ["declare", "l", "raman_local", 0], ["declare", "g", "rydberg_global"],
        ["add", "l", ["cp", 20, S("a0", lo=0, hi=5), 0.0, 0.25]],
        ["target", "l", 2], ["add", "l", ["cp", 12, 1.0, 0.0, 0.0]],
        ["phase_shift", 0.5, [0, 1], "digital"], ["target", "l", 0], ["add", "l", ["cp", 12, 1.0, 0.0, 1.0]],
        ["add", "g", ["cp", 16, 1.0, 0.0, 0.0]]]),
    # initial_target given to a Global channel (accepted and ignored by declare_channel)
    "global_init_target": dict(device="mock", prog=[
        ["declare", "g", "rydberg_global", "q1"], ["declare", "l", "raman_local", "q0"],
        ["add", "g", ["cp", 20, S("a0", lo=0, hi=5), 0.0, 0.25]], ["add", "l", ["cp", 12, 1.0, 0.0, 0.0]]]),
    # interpolated waveforms with a non-default interpolator and interpolator options (values concrete: scipy)
    "interp_opts": dict(device="mock", prog=[
        ["declare", "g", "rydberg_global"],
        ["add", "g", ["pulse", ["interp", 40, [0.0, 2.0, 1.0, 3.0], None, {"interpolator": "interp1d", "kind": "quadratic"}],
                      ["interp", 40, [-1.0, 1.0, 0.0], [0.0, 0.3, 1.0]], 0.5]],
        ["add", "g", ["cdet", ["interp", 24, [1.0, 0.5, 2.0], [0.0, 0.5, 1.0], {"interpolator": "interp1d", "kind": "previous"}], S("d0", "fix", lo=-20, hi=20), 0.0]]]),
}

# parametrized templates: variable declarations + program using expressions
PARAM_PROGRAMS = {
    "vars_basic": dict(device="mock", vars=[("a", "float", 1), ("b", "float", 1), ("n", "int", 1)], prog=[
        ["declare", "g", "rydberg_global"], ["declare", "l", "raman_local", "q0"],
        ["add", "g", ["cp", 16, E("add", ["mul", ["var", "a"], 2.0], 1.0), E("sub", ["div", ["var", "b"], 4.0], ["var", "a"]), 0.5]],
        ["add", "l", ["cdet", ["ramp", 12, E("var", "a"), E("add", ["var", "a"], ["pow", ["var", "b"], 2])], E("neg", ["var", "b"]), 0.0, 1.0]],
        ["delay", "g", E("var", "n")],
        ["phase_shift", E("sub", 3.0, ["var", "a"]), ["q1"], "digital"],
        ["add", "g", ["cp", E("mul", ["var", "n"], 2), 1.0, E("sub", 1.0, ["var", "b"]), 0.0], "no-delay"]]),
    "vars_items": dict(device="mock", vars=[("arr", "float", 3), ("t", "int", 2)], prog=[
        ["declare", "l", "raman_local", "q0"], ["declare", "g", "rydberg_global"],
        ["add", "l", ["cp", 16, E("item", "arr", 0), E("sub", ["item", "arr", 1], ["item", "arr", 2]), E("mod", ["item", "arr", 2], 3.0)]],
        ["target_index", "l", E("item", "t", 1)],
        ["add", "l", ["cp", 12, E("div", 2.0, ["add", ["item", "arr", 0], 1.0]), 0.0, 0.0]],
        ["phase_shift_index", E("pow", 2.0, ["item", "arr", 1]), [0, 1], "digital"] if False else ["phase_shift_index", E("mul", ["item", "arr", 1], 2.0), [0, 1], "digital"],
        ["add", "g", ["cp", 12, E("abs", ["item", "arr", 2]), E("sub", 5.0, ["item", "arr", 0]), 0.0]],
        ["measure", "digital"]]),
    "vars_eom": dict(device="virt", vars=[("d", "int", 1), ("ph", "float", 1)], prog=[
        ["declare", "g", "ryd_glob"], ["enable_eom", "g", 2.0, 0.0, -1.0],
        ["add_eom", "g", E("var", "d"), E("var", "ph"), None, {"post_phase_shift": E("mul", ["var", "ph"], 2.0)}],
        ["delay", "g", E("mul", ["var", "d"], 2)], ["add_eom", "g", 16, 0.0], ["disable_eom", "g"]]),
    # array-valued expressions with a literal-list operand (only InterpolatedWaveform takes parametrized arrays; scipy
    # interpolation needs concrete numbers, so this template is built with concrete variable values)
    "vars_list_operand": dict(device="mock", vars=[("arr", "float", 3), ("s", "float", 1)], concrete_vars=True, prog=[
        ["declare", "g", "rydberg_global"],
        ["add", "g", ["pulse", ["interp", 40, E("mul", ["var", "arr"], {"lit": [1.0, 0.5, 0.25]}), [0.0, 0.5, 1.0]],
                      ["interp", 40, E("sub", ["var", "s"], {"lit": [0.0, 1.0, 2.0]}), [0.0, 0.5, 1.0]], 0.0]],
        ["add", "g", ["cdet", ["interp", 40, E("mul", {"lit": [2.0, 1.0, 0.5]}, ["var", "arr"]), [0.0, 0.25, 1.0]], E("div", ["var", "s"], 2.0), 0.0]]]),
    # rounding functions of variables (np.round, round(x, 2), np.floor, np.ceil): concrete variable values
    "vars_round": dict(device="mock", vars=[("a", "float", 1), ("b", "float", 1)], concrete_vars=True, prog=[
        ["declare", "g", "rydberg_global"],
        ["add", "g", ["cp", 16, E("round", ["mul", ["var", "a"], 2.6]), E("round2", ["div", ["var", "b"], 3.0]), 0.0]],
        ["add", "g", ["cp", 16, E("ceil", ["mul", ["var", "a"], 1.3]), E("floor", ["mul", ["var", "b"], 1.7]), 0.5]],
        ["add", "g", ["cp", 16, E("tanh", ["var", "a"]), E("sub", ["sqrt", ["var", "b"]], ["exp", ["var", "a"]]), 0.25]],
        ["add", "g", ["cp", 16, E("add", ["sin", ["var", "a"]], 1.0), E("sub", ["cos", ["var", "b"]], ["log", ["var", "a"]]), E("tan", ["var", "b"])]]]),
    # mappable register: "all qubits" of a target-less phase_shift is only known at build time (built with 2 of 3 qubits)
    "mappable_shift_all": dict(device="mock", reg="mappable3", direct_reg="mapped3", qubits={"q0": 1, "q1": 4},
                               qubits_alt={"q0": 2, "q1": 5}, direct_reg_alt="mapped3b", vars=[("a", "float", 1)], prog=[
        ["declare", "g", "rydberg_global"],
        ["add", "g", ["cp", 16, E("var", "a"), 0.0, 0.25]],
        ["phase_shift", E("mul", ["var", "a"], 0.5), [], "ground-rydberg"],
        ["add", "g", ["cp", 12, 1.0, 0.0, 0.0]],
        ["phase_shift", 0.75, ["q0", "q1"], "ground-rydberg"],
        ["add", "g", ["cp", 12, 1.0, E("neg", ["var", "a"]), 0.0]]]),
    # strided / reversed / offset slices of an array variable as the values of an InterpolatedWaveform with DEFAULT times
    # (the serializer has to know how many values the slice has)
    "vars_strided": dict(device="mock", vars=[("arr", "float", 5)], concrete_vars=True, prog=[
        ["declare", "g", "rydberg_global"],
        ["add", "g", ["pulse", ["interp", 40, E("slice", "arr", None, None, 2)], ["interp", 40, E("slice", "arr", 1, None, 3)], 0.0]],
        ["add", "g", ["cdet", ["interp", 24, E("slice", "arr", None, None, -2)], 0.5, 0.0]],
        ["add", "g", ["cdet", ["interp", 24, E("slice", "arr", 1, 4)], 0.5, 0.0]]]),
    # index-based calls resolved at build time on a partially mapped register (negative index = last MAPPED qubit)
    "mappable_index": dict(device="mock", reg="mappable3", direct_reg="mapped3", qubits={"q0": 1, "q1": 4}, vars=[("a", "float", 1), ("t", "int", 2)],
                           index_values=[-1, 0], prog=[
        ["declare", "l", "rydberg_local", "q0"],
        ["add", "l", ["cp", 16, E("var", "a"), 0.0, 0.25]],
        ["target_index", "l", E("item", "t", 0)],
        ["add", "l", ["cp", 12, 1.0, 0.0, 0.0]],
        ["phase_shift_index", E("var", "a"), [1], "ground-rydberg"],
        ["target_index", "l", E("item", "t", 1)],
        ["add", "l", ["cp", 12, 1.0, E("neg", ["var", "a"]), 0.0]]]),
    # parametrized objects whose arguments are ALL given by keyword
    "kw_only": dict(device="mock", vars=[("a", "float", 1), ("b", "float", 1)], prog=[
        ["declare", "g", "rydberg_global"],
        ["add", "g", ["pulse_kw", ["ramp_kw", 16, E("var", "a"), E("add", ["var", "a"], 1.0)], ["const_kw", 16, E("neg", ["var", "b"])], 0.25]],
        ["add", "g", ["cdet_kw", ["const_kw", 12, E("mul", ["var", "b"], 2.0)], E("var", "a"), 0.5]]]),
    "vars_dmm": dict(device="mock", vars=[("x", "float", 1)], prog=[
        ["declare", "g", "rydberg_global"], ["config_dmap", {"q0": 1.0, "q1": 0.5, "q2": 0.0}, "dmm_0"],
        ["add_dmm", "dmm_0", ["ramp", 16, E("neg", ["var", "x"]), E("div", ["neg", ["var", "x"]], 2.0)]],
        ["add", "g", ["cp", 20, E("var", "x"), 0.0, 0.0]]]),
}


# the abstract representation documents that it only exports Pchip interpolation without options (AbstractReprError)
LEGACY_ONLY = {"interp_opts"}


def resolve_ph(inp, x):
    if isinstance(x, str) and x.startswith("PH:"):
        return PH(inp, x[3:])
    if isinstance(x, list):
        return [resolve_ph(inp, y) for y in x]
    if isinstance(x, dict) and "s" not in x and "e" not in x:
        return {k: resolve_ph(inp, v) for k, v in x.items()}
    return x


def build_program(inp, P, env=None):
    seq = l2.new_seq(P["device"], P.get("reg", "reg3"))
    if P.get("unused_var"):
        seq.declare_variable("declared_but_unused", dtype=float)  # does not make the sequence parametrized
    inp.env = env or {}
    if env is not None and P.get("vars") and env == "declare":
        inp.env = {}
        for (name, typ, size) in P["vars"]:
            inp.env[name] = seq.declare_variable(name, size=(size if size > 1 else None), dtype=(int if typ == "int" else float))
    if P.get("lets"):
        # named sub-expressions: ONE expression object (or value) referenced from several places of the program
        inp.env = dict(inp.env)
        for (name, expr) in P["lets"]:
            inp.env[name] = l2.ev(expr, inp.env)
    prog = [resolve_ph(inp, op) for op in P["prog"]]
    l2.run_prefix(inp, seq, prog)
    return seq


def static_equal(a, b):
    """device / register / channel map / measurement / flags."""
    terms = []
    terms.append(a.device == b.device)
    ra, rb = a.get_register(), b.get_register()
    # (the abstract representation documents that qubit ids come back as strings)
    terms.append(type(ra) is type(rb) and [str(q) for q in ra.qubit_ids] == [str(q) for q in rb.qubit_ids])
    if hasattr(ra, "qubits") and not a.is_register_mappable():
        for q, q2 in zip(ra.qubit_ids, rb.qubit_ids):
            terms.append(bool(np.allclose(np.asarray(ra.qubits[q].as_array(), dtype=float), np.asarray(rb.qubits[q2].as_array(), dtype=float))))
        terms.append((ra.layout is None) == (rb.layout is None))
        if ra.layout is not None:
            terms.append(ra.layout == rb.layout)
    terms.append({n: c.channel_id for n, c in a._schedule.items()} == {n: c.channel_id for n, c in b._schedule.items()})
    terms.append(list(a.declared_channels) == list(b.declared_channels))
    terms.append(a.is_measured() == b.is_measured())
    if a.is_measured():
        terms.append(a.get_measurement_basis() == b.get_measurement_basis())
    # detuning maps of DMM channels weigh the qubits identically
    for n, cs in a._schedule.items():
        if hasattr(cs, "detuning_map") and n in b._schedule and hasattr(b._schedule[n], "detuning_map") and not a.is_register_mappable():
            wa = cs.detuning_map.get_qubit_weight_map(ra.qubits)
            wb = b._schedule[n].detuning_map.get_qubit_weight_map(rb.qubits)
            terms.append(l2.snap_equal(wa, wb))
    terms.append(a.is_parametrized() == b.is_parametrized())
    terms.append(sorted(a.declared_variables) == sorted(b.declared_variables))
    terms.append(a._in_xy == b._in_xy)
    terms.append(set(map(str, a._slm_mask_targets)) == set(map(str, b._slm_mask_targets)))
    return terms


def h_roundtrip(shape):
    P = PROGRAMS[shape["program"]]
    if shape.get("upto"):
        P = dict(P, prog=P["prog"][:shape["upto"]])
    inner = _h_roundtrip(shape, P)

    def h(inp):
        # (kwmode: the very same program with every argument passed by keyword)
        l2.KW_MODE[0] = bool(shape.get("kwmode"))
        try:
            return inner(inp)
        finally:
            l2.KW_MODE[0] = False

    return h


def _h_roundtrip(shape, P):

    def h(inp):
        stubs.bind(inp)
        jsonfacade.reset()
        from pulser import Sequence

        seq = build_program(inp, P)
        obs = []
        if shape.get("relevel"):
            # the device was already serialised once, then its Rydberg level is changed (VirtualDevice.change_rydberg_level
            # edits the device in place): the document written afterwards describes the device as it is NOW
            seq.to_abstract_repr()
            seq._serialize()
            seq.device.change_rydberg_level(61)
        try:
            if shape["codec"] == "abstract":
                s = seq.to_abstract_repr()  # includes real schema validation
                doc = real_json.loads(s)
                obs.append(("abstract:document_structure", isinstance(doc, dict) and {"device", "register", "channels", "operations", "measurement", "variables", "version"} <= set(doc)))
                seq2 = Sequence.from_abstract_repr(s)
            else:
                s = seq._serialize()
                seq2 = legacy_loads(s)
        except Exception as e:  # noqa: BLE001  (serialising is total on these programs and its output must decode)
            return obs + [(shape["codec"] + ":roundtrip_completes", False)]
        obs.append((shape["codec"] + ":same_static_parts", AND(*static_equal(seq, seq2))))
        obs.append((shape["codec"] + ":identical_timeline", l2.snap_equal(l2.timeline(seq), l2.timeline(seq2))))
        obs.append((shape["codec"] + ":same_mag_field", l2.snap_equal(None if seq._mag_field is None else list(seq._mag_field),
                                                                     None if seq2._mag_field is None else list(seq2._mag_field))))
        return obs

    return h


def legacy_loads(s):
    """json.loads(s, cls=PulserDecoder) with tokens substituted before the
    decoder's object_hook runs (bottom-up, as the real decoder does)."""
    from pulser.json.coders import PulserDecoder

    dec = PulserDecoder()
    raw = real_json.loads(s)

    def walk(x):
        if isinstance(x, str) and x in jsonfacade.TOK:
            return jsonfacade.TOK[x]
        if isinstance(x, list):
            return [walk(y) for y in x]
        if isinstance(x, dict):
            return dec.object_hook({k: walk(v) for k, v in x.items()})
        return x

    return walk(raw)


def var_values(inp, P, tag):
    vals = {}
    for (name, typ, size) in P["vars"]:
        if P.get("concrete_vars"):
            base = 1.0 if tag == "v" else 0.75
            v = [base + 0.5 * i for i in range(size)]
        elif typ == "int":
            v = [inp.mult("%s_%s%d" % (tag, name, i), 4, 8, 40) for i in range(size)] if name != "t" else list(P.get("index_values", [1, 2]))[:size]
        else:
            v = [inp.real("%s_%s%d" % (tag, name, i), 0.125, 4) for i in range(size)]
        vals[name] = v if size > 1 else v[0]
    return vals


def h_param_roundtrip(shape):
    inner = _h_param_roundtrip(shape)

    def h(inp):
        l2.KW_MODE[0] = bool(shape.get("kwmode"))
        try:
            return inner(inp)
        finally:
            l2.KW_MODE[0] = False

    return h


def _h_param_roundtrip(shape):
    P = PARAM_PROGRAMS[shape["program"]]

    def h(inp):
        stubs.bind(inp)
        jsonfacade.reset()
        from pulser import Sequence

        tmpl = build_program(inp, P, env="declare")
        obs = [("param:template_is_parametrized", tmpl.is_parametrized())]
        try:
            # decoding is independent of whatever was decoded before in this process: an unrelated sequence whose variable
            # has the same NAME (other type and size) goes through the same decoder first
            first = P["vars"][0]
            other = l2.new_seq("mock")
            other.declare_channel("x", "rydberg_global")
            ov = other.declare_variable(first[0], size=first[2] + 2, dtype=(float if first[1] == "int" else int))
            other.delay(ov[0] if first[1] != "int" else 16, "x")
            if shape["codec"] == "abstract":
                Sequence.from_abstract_repr(other.to_abstract_repr())
                t2 = Sequence.from_abstract_repr(tmpl.to_abstract_repr())
            else:
                legacy_loads(other._serialize())
                t2 = legacy_loads(tmpl._serialize())
        except Exception as e:  # noqa: BLE001  (a document the serializer produced must decode)
            return obs + [(shape["codec"] + ":param_roundtrip_completes", False)]
        obs.append(("param:decoded_is_parametrized", t2.is_parametrized() and set(t2.declared_variables) == set(tmpl.declared_variables)))
        vals = var_values(inp, P, "v")
        if P.get("qubits"):
            vals = dict(vals, qubits=P["qubits"])
        try:
            b1 = tmpl.build(**vals)
        except l2.REFUSALS:
            raise core.Infeasible()
        try:
            b2 = t2.build(**vals)
        except Exception:  # noqa: BLE001  (the original builds with these values: the decoded one must too)
            return obs + [(shape["codec"] + ":param_decoded_builds", False)]
        obs.append((shape["codec"] + ":param_same_build", l2.snap_equal(l2.timeline(b1), l2.timeline(b2))))
        obs.append((shape["codec"] + ":param_same_static_parts", AND(*static_equal(b1, b2))))
        # the BUILT sequence (its stored calls hold evaluated variables) is a sequence like any other: it round-trips too
        try:
            if shape["codec"] == "abstract":
                b3 = Sequence.from_abstract_repr(b1.to_abstract_repr())
            else:
                b3 = legacy_loads(b1._serialize())
        except Exception:  # noqa: BLE001
            return obs + [(shape["codec"] + ":built_roundtrip_completes", False)]
        obs.append((shape["codec"] + ":built_identical_timeline", l2.snap_equal(l2.timeline(b1), l2.timeline(b3))))
        return obs

    return h


def kernels(tier):
    ks = []
    for name in PROGRAMS:
        if name not in LEGACY_ONLY:
            ks.append(("roundtrip", dict(program=name, codec="abstract")))
        ks.append(("roundtrip", dict(program=name, codec="legacy")))
    for codec in ("abstract", "legacy"):
        ks.append(("roundtrip", dict(program="at_rest_b", codec=codec, relevel=True)))
        for name in ("basic", "at_rest_a", "eom", "eom_defaults", "dmm", "slm_ising", "xy") if tier != "quick" else ("basic", "eom", "dmm", "xy"):
            ks.append(("roundtrip", dict(program=name, codec=codec, kwmode=True)))
    for name in ("mappable_shift_all", "vars_dmm", "vars_eom", "vars_basic"):
        for codec in ("abstract", "legacy"):
            ks.append(("param", dict(program=name, codec=codec, kwmode=True)))
    for name in PARAM_PROGRAMS:
        ks.append(("param", dict(program=name, codec="abstract")))
        ks.append(("param", dict(program=name, codec="legacy")))
    if tier != "quick":
        # every proper prefix (>= 2 operations) of every program is a sequence of its own: intermediate states
        # (pending fall times, an open EOM block, a mask configured but not yet applied, no measurement) round-trip too
        for name, P in PROGRAMS.items():
            for n in range(2, len(P["prog"])):
                for codec in (("legacy",) if name in LEGACY_ONLY else ("abstract", "legacy")):
                    ks.append(("roundtrip", dict(program=name, codec=codec, upto=n)))
    return ks


def harness(kernel, shape):
    return h_roundtrip(shape) if kernel == "roundtrip" else h_param_roundtrip(shape)
