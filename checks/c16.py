"""C16 - waveforms and pulses honour their defining contracts.

K1 index   Waveform._check_index / _check_slice vs Python's slice semantics
K2 values  Constant / Ramp / Custom / Composite / Blackman: sample count,
           finiteness, documented values, integral, change_duration,
           scaling / negation / division, equality
K4 pulse   Pulse.__init__ phase range, ArbitraryPhase reconstruction
   phase_fp  binary64 sub-query for the wrap edge of x % 2*pi (finding F3)
Out: Interpolated / Kaiser numerics, Blackman/Kaiser from_max_val search.
"""
from __future__ import annotations

import math

import numpy as np
import z3

from symx import core, facade, stubs
from symx.core import AND, IFF, IMPLIES, ITE, NOT, OR, SBool, SInt, SReal, is_sym, smax, smin

PROPERTY = "C16"
TWO_PI = 2 * np.pi
TOL = 1e-9
STUBS = [
    "R-mode: waveform parameters are exact reals; concrete binary64 constants (1e3, 1e-3, np.blackman values) enter with their exact value, "
    "so identities that hold up to rounding are asserted with tolerance 1e-9",
    "phase_fp: Python's float x % m for -m < x < 0 is modelled as fl(x + m) (C fmod returns x, then the sign fix adds m); decided in QF_FP and "
    "replayed on the real Pulse",
]
FLOAT_MODE = "R-mode exact reals (+ one QF_FP query)"
BOUNDS = {"quick": dict(durations=[1, 2, 3, 4, 5, 6], slice_args="all integers (symbolic)", phase_samples="2..4"),
          "thorough": dict(durations=list(range(1, 10)), slice_args="all integers (symbolic)", phase_samples="2..6")}
OUTSIDE = ["InterpolatedWaveform sample values (scipy)", "KaiserWaveform.from_max_val short-window branch (guess < 11) and beta != 14",
           "from_max_val outside the stated window lengths", "hash"]


def setup():
    facade.install()
    stubs.init()


def setup_concrete():
    stubs.init()


def samples_of(wf):
    a = wf.samples.as_array(detach=True)
    if isinstance(a, facade.ConstArr):
        return [a.value]
    return list(a.flat) if a.dtype == object else [float(v) for v in a]


def FINITE(x):
    x = core._np_item(x)
    return True if is_sym(x) else bool(np.isfinite(x))


def NEAR(a, b, tol=TOL):
    a, b = core._np_item(a), core._np_item(b)
    if (isinstance(a, float) and not math.isfinite(a)) or (isinstance(b, float) and not math.isfinite(b)):
        return False
    return abs(a - b) <= tol


# ---- K1 --------------------------------------------------------------------


def h_index(shape):
    from pulser.waveforms import ConstantWaveform

    def h(inp):
        d = inp.int("duration", 1, None)
        wf = ConstantWaveform(d, 1.0)
        obs = []
        if shape["what"] == "index":
            i = inp.int("i", None, None)
            try:
                r = wf._check_index(i)
                ok = True
            except IndexError:
                ok = False
            valid = AND(i >= -d, i < d)
            obs.append(("k1:index_accept_iff_in_range", IFF(ok, valid)))
            if ok:
                obs.append(("k1:index_result", AND(r >= 0, r < d, r == ITE(i >= 0, i, i + d))))
        else:
            a = None if shape["start_none"] else inp.int("start", None, None)
            b = None if shape["stop_none"] else inp.int("stop", None, None)
            s = wf._check_slice(slice(a, b))

            def norm(x, default):
                if x is None:
                    return default
                y = ITE(x >= 0, x, x + d)
                return smin(smax(y, 0), d)

            rs, re_ = norm(a, 0), norm(b, d)
            # Python: samples[a:b] has max(0, stop' - start') elements from start'
            length = smax(re_ - rs, 0)
            obs.append(("k1:slice_start", IMPLIES(length > 0, s.start == rs)))
            obs.append(("k1:slice_length", smax(s.stop - s.start, 0) == length))
            obs.append(("k1:slice_in_range", AND(s.start >= 0, s.stop <= d, s.stop >= s.start)))
            try:
                wf._check_slice(slice(a, b, 2))
                obs.append(("k1:step_refused", False))
            except IndexError:
                pass
        return obs

    return h


# ---- K2 --------------------------------------------------------------------


def h_values(shape):
    from pulser.waveforms import (BlackmanWaveform, CompositeWaveform, ConstantWaveform, CustomWaveform,
                                  RampWaveform)

    d = shape["dur"]
    cls = shape["cls"]

    def h(inp):
        obs = []
        if cls == "const":
            v = inp.real("v")
            wf = ConstantWaveform(d, v)
            expect = [v] * d
            params = lambda w: [facade._unwrap0(w._value)]  # noqa: E731
        elif cls == "ramp":
            a, b = inp.real("start"), inp.real("stop")
            wf = RampWaveform(d, a, b)
            expect = [a + (b - a) * i / (d - 1) for i in range(d)] if d > 1 else None
            params = lambda w: [facade._unwrap0(w._start), facade._unwrap0(w._stop)]  # noqa: E731
        elif cls == "custom":
            xs = [inp.real("s%d" % i) for i in range(d)]
            wf = CustomWaveform(xs)
            expect = xs
            params = None
        elif cls == "composite":
            v, a, b = inp.real("v"), inp.real("start"), inp.real("stop")
            d1 = max(1, d // 2)
            d2 = d - d1
            if d2 < 2:
                d2 = 2
            wf = CompositeWaveform(ConstantWaveform(d1, v), RampWaveform(d2, a, b))
            expect = [v] * d1 + [a + (b - a) * i / (d2 - 1) for i in range(d2)]
            params = None
        elif cls == "nested":
            # a composite that contains a composite with different children: samples are the in-order concatenation
            v, a, b = inp.real("v"), inp.real("start"), inp.real("stop")
            xs = [inp.real("s%d" % i) for i in range(2)]
            inner = CompositeWaveform(RampWaveform(3, a, b), ConstantWaveform(2, v))
            odd = shape["nest"] % 2
            wf = CompositeWaveform(inner, CustomWaveform(xs), ConstantWaveform(1, b)) if odd else CompositeWaveform(CustomWaveform(xs), inner)
            flat = [a + (b - a) * i / 2 for i in range(3)] + [v, v]
            expect = (flat + xs + [b]) if odd else (xs + flat)
            params = None
        elif cls == "blackman":
            area = inp.real("area")
            wf = BlackmanWaveform(d, area)
            expect = None
            params = lambda w: [facade._unwrap0(w._area)]  # noqa: E731
        elif cls == "interp":
            # concrete data (scipy interpolation does not run on proxies): derived copies are built from the same points
            from pulser.waveforms import InterpolatedWaveform

            kw = dict(shape["kw"])
            wf = InterpolatedWaveform(d, list(shape["values"]), **kw)
            try:
                # every waveform - the derived copies included - has computable samples
                for w_ in (wf, wf * 2.0, wf * 0.0, -wf, wf.change_duration(2 * d - 1)):
                    w_.samples
            except Exception:  # noqa: BLE001
                return [("k2:samples_computable", False)]
            s0 = [float(x) for x in wf.samples.as_array(detach=True)]
            obs.append(("k2:n_samples", len(s0) == d))
            for kk in (2.0, -0.5, 0.0):
                sk = [float(x) for x in (wf * kk).samples.as_array(detach=True)]
                obs.append(("k2:mul_scales", len(sk) == d and all(abs(x - kk * y) <= 1e-6 * (1 + abs(y)) for x, y in zip(sk, s0))))
            sn = [float(x) for x in (-wf).samples.as_array(detach=True)]
            obs.append(("k2:neg", all(abs(x + y) <= 1e-6 * (1 + abs(y)) for x, y in zip(sn, s0))))
            w2 = wf.change_duration(2 * d - 1)  # every other sample of the longer copy falls on a sample time of the original
            s2 = [float(x) for x in w2.samples.as_array(detach=True)]
            # (the end samples coincide when the first / last interpolation point sits on the first / last nanosecond)
            ends = kw.get("times") is None or (min(kw["times"]) == 0.0 and max(kw["times"]) == 1.0)
            obs.append(("k2:change_duration", len(s2) == 2 * d - 1 and type(w2) is type(wf)
                        and (not ends or (abs(s2[0] - s0[0]) <= 1e-6 and abs(s2[-1] - s0[-1]) <= 1e-6))))
            # "changing the duration preserves the defining parameters" (values, time fractions, interpolator and its options): the
            # copy IS the waveform built directly with the new duration, also after a detour through a third duration
            for nd in (2 * d - 1, d + 3, 7 * d + 3):
                ref = InterpolatedWaveform(nd, list(shape["values"]), **kw)
                sr = [float(x) for x in ref.samples.as_array(detach=True)]
                for wn in (wf.change_duration(nd), wf.change_duration(11).change_duration(nd)):
                    sw = [float(x) for x in wn.samples.as_array(detach=True)]
                    obs.append(("k2:change_duration_is_direct_construction", len(sw) == nd and all(abs(x - y) <= 1e-9 * (1 + abs(y)) for x, y in zip(sw, sr))
                                and np.array_equal(np.asarray(wn.data_points, dtype=float), np.asarray(ref.data_points, dtype=float))))
            import pulser.json.coders as co
            import json as _json

            w3 = _json.loads(_json.dumps(wf, cls=co.PulserEncoder), cls=co.PulserDecoder)
            s3 = [float(x) for x in w3.samples.as_array(detach=True)]
            obs.append(("k2:interp_copy_same_samples", all(abs(x - y) <= 1e-9 for x, y in zip(s3, s0))))
            return obs
        elif cls == "kaiser":
            from pulser.waveforms import KaiserWaveform

            area = inp.real("area")
            wf = KaiserWaveform(d, area, shape["beta"])
            expect = None
            params = lambda w: [facade._unwrap0(w._area), float(w._beta), type(w).__name__]  # noqa: E731
        s = samples_of(wf)
        n_expected = len(expect) if expect is not None else d
        obs.append(("k2:n_samples", len(s) == n_expected and wf.duration == n_expected))
        obs.append(("k2:finite", AND(*[FINITE(x) for x in s])))
        if not all(FINITE(x) is True or is_sym(x) for x in s):
            return obs
        if expect is not None:
            obs.append(("k2:documented_values", AND(*[NEAR(x, e) for x, e in zip(s, expect)])))
            obs.append(("k2:first_last", AND(NEAR(wf.first_value, expect[0]), NEAR(wf.last_value, expect[-1]))))
        tot = s[0]
        for x in s[1:]:
            tot = tot + x
        obs.append(("k2:integral", NEAR(wf.integral, tot * 1e-3)))
        if cls == "blackman" and d >= 3:
            obs.append(("k2:blackman_area", abs(wf.integral - area) <= 1e-9 * (1 + abs(area))))
            obs.append(("k2:blackman_sign", AND(*[IMPLIES(area >= 0, x >= 0) for x in s] + [IMPLIES(area <= 0, x <= 0) for x in s])))
        # scaling / negation / division
        k = inp.real("k")
        sk = samples_of(wf * k)
        obs.append(("k2:mul_scales", AND(*[NEAR(x, y * k) for x, y in zip(sk, s)]) if len(sk) == len(s) else False))
        sn = samples_of(-wf)
        obs.append(("k2:neg", AND(*[NEAR(x, -y) for x, y in zip(sn, s)])))
        if shape.get("div"):
            try:
                sd = samples_of(wf / k)
                obs.append(("k2:div_scales", AND(*[NEAR(x * k, y) for x, y in zip(sd, s)] + [NOT(k == 0)])))
            except ZeroDivisionError:
                obs.append(("k2:div_zero_only", k == 0))
        # change_duration keeps the defining parameters
        if params is not None:
            w2 = wf.change_duration(d + 3)
            obs.append(("k2:change_duration", AND(w2.duration == d + 3, *[x == y for x, y in zip(params(w2), params(wf))])))
        # equality agrees with sample-wise closeness
        if shape.get("eq") and cls in ("const", "custom"):
            if cls == "const":
                other = ConstantWaveform(d, inp.real("v2"))
            else:
                other = CustomWaveform([inp.real("o%d" % i) for i in range(d)])
            so = samples_of(other)
            close = AND(*[abs(x - y) <= 1e-8 + 1e-5 * abs(y) for x, y in zip(s, so)])
            obs.append(("k2:eq_iff_close", IFF(wf == other, close)))
            obs.append(("k2:eq_other_duration", not (wf == ConstantWaveform(d + 1, 0.0))))
        return obs

    return h


# ---- K4 --------------------------------------------------------------------


def h_pulse(shape):
    from pulser.pulse import Pulse
    from pulser.waveforms import ConstantWaveform, CustomWaveform, RampWaveform

    def h(inp):
        obs = []
        if shape["what"] == "init":
            ph = inp.real("phase", -100, 100)
            post = inp.real("post", -100, 100)
            p = Pulse.ConstantPulse(8, 1.0, 0.0, ph, post)
            x = facade._unwrap0(p.phase)
            y = facade._unwrap0(p.post_phase_shift)
            obs.append(("k4:phase_range", AND(x >= 0, x < TWO_PI)))
            obs.append(("k4:post_phase_range", AND(y >= 0, y < TWO_PI)))
            q = (x - ph) / TWO_PI
            obs.append(("k4:phase_congruent", SBool(z3.ToReal(z3.ToInt(core._r(q))) == core._r(q)) if is_sym(q) else abs(q - round(q)) < 1e-9))
            return obs
        n = shape["n"]
        kind = shape["kind"]
        if kind == "custom":
            phis = [inp.real("phi%d" % i, -50, 50) for i in range(n)]
            pw = CustomWaveform(phis)
        elif kind == "ramp":
            a, b = inp.real("phi_start", -50, 50), inp.real("phi_stop", -50, 50)
            pw = RampWaveform(n, a, b)
            phis = [a + (b - a) * i / (n - 1) for i in range(n)]
        else:
            a = inp.real("phi", -50, 50)
            pw = ConstantWaveform(n, a)
            phis = [a] * n
        p = Pulse.ArbitraryPhase(ConstantWaveform(n, 1.0), pw)
        det = samples_of(p.detuning)
        pc = facade._unwrap0(p.phase)
        obs.append(("k4:arb_n", len(det) == n))
        obs.append(("k4:arb_offset_range", AND(pc >= 0, pc < TWO_PI)))
        acc = 0.0
        for t in range(n):
            acc = acc + det[t] * 1e-3
            rec = pc - acc
            diff = rec - phis[t]
            # equal modulo 2*pi up to tolerance
            if is_sym(diff):
                qi = z3.ToInt(core._r(diff / TWO_PI + 0.5))
                resid = diff - TWO_PI * SReal(z3.ToReal(qi))
                obs.append(("k4:arb_phase_reproduced", abs(resid) <= 1e-7))
            else:
                q = round(diff / TWO_PI)
                obs.append(("k4:arb_phase_reproduced", abs(diff - TWO_PI * q) <= 1e-7))
        return obs

    return h


def h_blackman_max(shape):
    """BlackmanWaveform.from_max_val: never exceeds max_val, integrates to the area, and one nanosecond shorter would
    exceed it (or, documented odd/even irregularity, would not come closer).  The window length is concretised by
    forking; np.blackman runs concretely for each length."""
    from pulser.waveforms import BlackmanWaveform

    max_val = shape["max_val"]

    def h(inp):
        area = inp.real("area", shape["lo"], shape["hi"])
        sign = -1.0 if shape.get("neg") else 1.0
        wf = BlackmanWaveform.from_max_val(sign * max_val, sign * area)
        s = samples_of(wf)
        D = len(s)  # concrete on this path (the window length was concretised)
        obs = [("k3:n_samples", wf.duration == D)]
        peak = smax([sign * x for x in s])
        obs.append(("k3:never_exceeds_max_val", peak <= max_val + 1e-9))
        tot = s[0]
        for x in s[1:]:
            tot = tot + x
        obs.append(("k3:area_preserved", abs(tot * 1e-3 - sign * area) <= 1e-9))
        obs.append(("k3:sign", AND(*[sign * x >= 0 for x in s])))
        # one nanosecond shorter
        if D >= 4:
            w = np.clip(np.blackman(D - 1), 0, np.inf)
            shorter_peak = area * 1e3 / float(np.sum(w)) * float(np.max(w))
            obs.append(("k3:one_ns_shorter_would_exceed_or_not_be_closer", OR(shorter_peak > max_val - 1e-9, peak >= shorter_peak - 1e-9)))
        return obs

    return h


def h_kaiser_max(shape):
    """KaiserWaveform.from_max_val, long-window branch (duration guess >= 11): never exceeds max_val, integrates to the
    area, one nanosecond shorter would exceed max_val."""
    from pulser.waveforms import KaiserWaveform

    max_val, beta = shape["max_val"], shape.get("beta", 14.0)

    def h(inp):
        area = inp.real("area", shape["lo"], shape["hi"])
        wf = KaiserWaveform.from_max_val(max_val, area, beta)
        s = samples_of(wf)
        D = len(s)
        obs = [("k3:kaiser_n_samples", wf.duration == D)]
        peak = smax(list(s))
        obs.append(("k3:kaiser_never_exceeds_max_val", peak <= max_val + 1e-9))
        tot = s[0]
        for x in s[1:]:
            tot = tot + x
        obs.append(("k3:kaiser_area_preserved", abs(tot * 1e-3 - area) <= 1e-9))
        if D >= 12:
            w = np.kaiser(D - 1, beta)
            shorter_peak = area * 1e3 / float(np.sum(w)) * float(np.max(w))
            obs.append(("k3:kaiser_one_ns_shorter_would_exceed", shorter_peak > max_val - 1e-9))
        return obs

    return h


def h_phase_fp(shape):
    """phase = x % 2*pi lies in [0, 2*pi) for every binary64 x in (-2*pi, 0).
    Symbolic side: QF_FP model of Python's float modulo on that interval;
    concrete side (replay): the real Pulse."""
    from pulser.pulse import Pulse

    def h(inp):
        if inp.concrete:
            import struct

            x = struct.unpack(">d", int(inp.values["x_bits"]).to_bytes(8, "big"))[0]
            p = Pulse.ConstantPulse(10, 1.0, 0.0, x)
            return [("k4:fp_phase_below_2pi", float(p.phase) < TWO_PI)]
        c = core.ctx()
        xb = z3.BitVec("x_bits", 64)
        inp.decl["x_bits"] = {"kind": "int", "term": z3.BV2Int(xb), "proxy": SInt(z3.BV2Int(xb))}
        x = z3.fpBVToFP(xb, z3.Float64())
        m = z3.FPVal(TWO_PI, z3.Float64())
        c.solver.add(z3.fpLT(x, z3.FPVal(0.0, z3.Float64())), z3.fpGT(x, z3.fpNeg(m)), z3.Not(z3.fpIsNaN(x)))
        r = z3.fpAdd(z3.RNE(), x, m)
        return [("k4:fp_phase_below_2pi", SBool(z3.fpLT(r, m)))]

    return h


def kernels(tier):
    quick = tier == "quick"
    ks = [("index", dict(what="index"))]
    for sn in (False, True):
        for en in (False, True):
            ks.append(("index", dict(what="slice", start_none=sn, stop_none=en)))
    durs = BOUNDS[tier]["durations"]
    for cls in ("const", "ramp", "custom", "composite", "blackman"):
        for d in durs:
            if cls == "composite" and d < 3:
                continue
            if cls == "custom" and d > 5:
                continue
            ks.append(("values", dict(cls=cls, dur=d, div=(d <= 4), eq=(d <= 3))))
    for d in (7, 8):  # (odd/even select the two nestings; the sample count is fixed by the parts)
        ks.append(("values", dict(cls="nested", dur=(8 if d % 2 else 7), nest=d, div=False, eq=False)))
    for d in ((5, 12) if quick else (3, 5, 8, 12, 20)):
        for beta in (3.0, 14.0):
            ks.append(("values", dict(cls="kaiser", dur=d, beta=beta, div=False, eq=False)))
    for values, kw in (([0.0, 2.0, 1.0], dict(times=[0.0, 1.0, 0.5], interpolator="interp1d")), ([0.0, 2.0, 1.0], dict()),
                       ([1.0, 3.0, 0.5, 2.0], dict(times=[0.0, 0.2, 0.7, 1.0])), ([1.0, 3.0, 0.5, 2.0], dict(interpolator="interp1d", kind="quadratic")),
                       ([0.0, 0.0, 0.0], dict())):
        ks.append(("values", dict(cls="interp", dur=21, values=values, kw=kw)))
    # time fractions that do not fall on whole nanoseconds of the original duration (the rounded points are not the parameters)
    for dur, values, kw in ((21, [1.0, 3.0, 0.5, 2.0], dict(times=[0.0, 0.33, 0.71, 1.0])), (16, [0.0, 2.0, -1.0], dict(times=[0.1, 0.45, 0.9])),
                            (12, [0.0, 5.0, 1.0], dict(times=[0.1, 0.45, 0.9], interpolator="interp1d", kind="linear", fill_value="extrapolate"))):
        ks.append(("values", dict(cls="interp", dur=dur, values=values, kw=kw)))
    ks.append(("pulse", dict(what="init")))
    for kind in ("custom", "ramp", "const"):
        for n in range(2, 5 if quick else 7):
            ks.append(("pulse", dict(what="arb", kind=kind, n=n)))
    ks.append(("phase_fp", dict()))
    # "a pulse has non-negative amplitude": Pulse.__init__ accepts iff every amplitude sample is >= 0 (kernel shared with C01)
    for amp in ("const", "ramp", "custom"):
        for dd in (0, 1):
            ks.append(("pinit", dict(amp=amp, n=3, dd=dd)))
    # from_max_val: the area range is cut into slices (one shape each, ~4 window lengths per slice) so that the
    # slices run in parallel; window lengths 12..45 ns (quick) / 12..120 ns (thorough)
    max_val = 5.0
    step = 0.008
    lo0, n_slices = 0.02, (9 if quick else 28)
    for i in range(n_slices):
        for neg in ((False,) if (quick and i % 2) else (False, True)):
            ks.append(("blackman_max", dict(max_val=max_val, lo=lo0 + i * step, hi=lo0 + (i + 1) * step, neg=neg)))
    # Kaiser, long-window branch: duration guess 12..40 (quick) / 12..100 (thorough); area slices as for Blackman
    kmax, kbeta = 20.0, 14.0
    ratio = kmax * float(np.sum(np.kaiser(100, kbeta))) / 100
    a_lo = 12.5 * ratio / 1000.0
    kstep = 3.0 * ratio / 1000.0
    for i in range(9 if quick else 29):
        ks.append(("kaiser_max", dict(max_val=kmax, beta=kbeta, lo=a_lo + i * kstep, hi=a_lo + (i + 1) * kstep)))
    return ks


def harness(kernel, shape):
    if kernel == "index":
        return h_index(shape)
    if kernel == "values":
        return h_values(shape)
    if kernel == "pulse":
        return h_pulse(shape)
    if kernel == "phase_fp":
        return h_phase_fp(shape)
    if kernel == "pinit":
        from checks import c01

        return c01.h_pulse_init(shape)
    if kernel == "blackman_max":
        return h_blackman_max(shape)
    if kernel == "kaiser_max":
        return h_kaiser_max(shape)
    raise ValueError(kernel)
