"""C06 - sampling renders the schedule exactly.

Kernel A (values symbolic, timeline concrete): real Sequences built from small
programs with concrete durations and symbolic amplitudes / detunings / phases
/ detuning-map weights; for EVERY nanosecond of every channel the sampled
arrays are compared with a reference renderer written from the slot list,
the per-atom view (to_nested_dict, all_local False/True) with a reference
attribution, and extend_duration with the padding rule.
"""
from __future__ import annotations

import numpy as np

from checks import l1, l2
from symx import core, facade, stubs
from symx.core import AND, IFF, IMPLIES, ITE, NOT, OR, is_sym

PROPERTY = "C06"
TWO_PI = 2 * np.pi
STUBS = [
    "timelines are concrete (durations fixed per shape); every amplitude, detuning, phase and detuning-map weight is a solver variable",
    "EOM shapes: Waveform.modulation_buffers replaced by the fixed value (rise_time//2, rise_time//2) so that the timeline stays concrete "
    "(fall-time values do not enter the rendering rule)",
    "numpy float arrays that receive proxies become dtype=object arrays (np facade); slicing/broadcast/+= are numpy's own",
]
FLOAT_MODE = "R-mode exact reals for sample values (sums of products with at most one symbolic factor)"
BOUNDS = {"quick": dict(programs=13, slot_lengths="4-20 ns", extensions=[0, 3]),
          "thorough": dict(programs=13, slot_lengths="4-32 ns (every program also with all durations lengthened by 1 and 3 clock periods)", extensions=[0, 1, 2, 5])}
OUTSIDE = ["modulated samples (C14)", "the per-atom (Local / all_local) view of the padding of a channel that is still in EOM mode beyond its own end", "symbolic timelines", "phase values outside pulses (kept from the previous pulse)"]

S = lambda n, k="real", **kw: dict(s=n, k=k, **kw)  # noqa: E731


def fixed_buffers(self, channel, eom=False):
    if not channel.mod_bandwidth:
        return 0, 0
    tr = channel.eom_config.rise_time if eom else channel.rise_time
    return tr // 2, tr // 2


def setup():
    l2.setup(stub_buffers=False)
    import pulser.waveforms as wf

    wf.Waveform.modulation_buffers = fixed_buffers


def setup_concrete():
    import pulser.waveforms as wf

    stubs.init()
    wf.Waveform.modulation_buffers = fixed_buffers


PROGRAMS = {
    "ising_basic": dict(device="mock", prog=[
        ["declare", "g", "rydberg_global"], ["declare", "l", "rydberg_local", "q0"], ["declare", "r", "raman_local", "q1"],
        ["add", "g", ["pulse", ["ramp", 6, S("a0", lo=0, hi=5), S("a1", lo=5, hi=10)], ["const", 6, S("d0")], 0.37]],
        ["add", "l", ["cp", 5, S("a2", lo=0), S("d1"), 0.74], "no-delay"],
        ["delay", "l", 3], ["target", "l", "q2"],
        ["add", "l", ["pulse", ["custom", [S("c0", lo=0), S("c1", lo=0), S("c2", lo=0), S("c3", lo=0)]], ["ramp", 4, S("d2", lo=-10, hi=0), S("d3", lo=0, hi=10)], 1.11]],
        ["add", "r", ["cp", 7, S("a3", lo=0), S("d4"), 1.48], "min-delay"],
        ["add", "g", ["cp", 4, S("a4", lo=0), S("d5"), 1.85], "no-delay"]]),
    "multi_target": dict(device="mock", prog=[
        ["declare", "l", "rydberg_local", ["q0", "q2"]], ["declare", "g", "rydberg_global"],
        ["add", "l", ["cp", 6, S("a0", lo=0), S("d0"), 2.22]],
        ["target", "l", ["q1", "q2"]],
        ["add", "l", ["cp", 5, S("a1", lo=0), S("d1"), 2.59]],
        ["add", "g", ["cp", 8, S("a2", lo=0), S("d2"), 2.96], "no-delay"]]),
    "dmm": dict(device="mock", prog=[
        ["declare", "g", "rydberg_global"],
        ["config_dmap", {"q0": S("w0", lo=0, hi=1), "q1": S("w1", lo=0, hi=1), "q2": 0.25}, "dmm_0"],
        ["add", "g", ["cp", 8, S("a0", lo=0), S("d0"), 3.33]],
        ["add_dmm", "dmm_0", ["ramp", 6, -2.0, -1.0]],
        ["delay", "dmm_0", 4],
        ["add_dmm", "dmm_0", ["const", 5, -3.0]],
        ["add", "g", ["cp", 6, S("a1", lo=0), S("d1"), 3.7], "no-delay"]]),
    "dmm_sym_det": dict(device="mock", prog=[
        ["declare", "l", "rydberg_local", "q1"],
        ["config_dmap", {"q0": 1.0, "q1": 0.5, "q2": 0.0}, "dmm_0"],
        ["add_dmm", "dmm_0", ["ramp", 6, S("e0", lo=-10, hi=-5), S("e1", lo=-5, hi=0)]],
        ["add", "l", ["cp", 8, S("a0", lo=0), S("d0"), 4.07], "no-delay"],
        ["add_dmm", "dmm_0", ["const", 5, S("e2", hi=0)], "wait-for-all"]]),
    "dmm_first": dict(device="mock", prog=[
        ["config_dmap", {"q0": 1.0, "q1": 0.5, "q2": 0.25}, "dmm_0"],
        ["declare", "l", "rydberg_local", "q1"], ["declare", "g", "rydberg_global"],
        ["add", "l", ["cp", 8, S("a0", lo=0), S("d0"), 0.4]],
        ["add_dmm", "dmm_0", ["const", 6, S("e0", hi=0)]],
        ["target", "l", "q2"], ["add", "l", ["cp", 5, S("a1", lo=0), S("d1"), 0.9]],
        ["add", "g", ["cp", 7, S("a2", lo=0), S("d2"), 1.3], "no-delay"]]),
    "xy_slm": dict(device="mock", prog=[
        ["declare", "mw", "mw_global"], ["config_slm", ["q0", "q2"]],
        ["delay", "mw", 3],
        ["add", "mw", ["cp", 6, S("a0", lo=0), S("d0"), 4.44]],
        ["add", "mw", ["cp", 5, S("a1", lo=0), S("d1"), 4.81]],
        ["delay", "mw", 2],
        ["add", "mw", ["pulse", ["ramp", 4, S("a2", lo=0, hi=5), S("a3", lo=5, hi=10)], ["const", 4, S("d2")], 5.18]]]),
    # two microwave channels, an SLM mask, pulses on the first one only (the second stays empty)
    "xy_slm_unused": dict(device="mock", prog=[
        ["declare", "mw", "mw_global"], ["declare", "mw2", "mw_global"], ["config_slm", ["q1"]],
        ["add", "mw", ["cp", 6, S("a0", lo=0), S("d0"), 0.4]],
        ["add", "mw", ["cp", 5, S("a1", lo=0), S("d1"), 1.4]]]),
    "eom": dict(device="virt", prog=[
        ["declare", "g", "ryd_glob"], ["declare", "l", "ram_glob"],
        ["add", "l", ["cp", 9, S("a0", lo=0, hi=10), S("d0", lo=-20, hi=20), 5.55]],
        ["enable_eom", "g", 2.0, 0.0, -1.0],
        ["add_eom", "g", 8, 5.92],
        ["delay", "g", 8],
        ["add_eom", "g", 12, 0.29],
        # no-delay keeps g the longest channel: the per-atom view of the padding of a channel that is still in
        # EOM mode beyond its own end is not specified by the property
        ["add", "l", ["cp", 5, S("a1", lo=0, hi=10), S("d1", lo=-20, hi=20), 0.66], "no-delay"]]),
    # a short detuned delay between two EOM pulses of different phase, the second one added with no-delay
    "eom_nodelay": dict(device="virt", prog=[
        ["declare", "g", "ryd_glob"],
        ["enable_eom", "g", 2.0, 0.0, -1.0],
        ["add_eom", "g", 12, 0.7], ["delay", "g", 8],
        ["add_eom", "g", 12, 2.1, None, {"protocol": "no-delay"}], ["delay", "g", 8], ["delay", "g", 8],
        ["add_eom", "g", 8, 0.2, None, {"protocol": "no-delay"}]]),
    "eom_closed": dict(device="virt", prog=[
        ["declare", "g", "ryd_glob"],
        ["enable_eom", "g", 2.0, 0.0, -1.0], ["disable_eom", "g"],
        ["declare", "l", "ram_glob"],
        ["add", "l", ["cp", 9, S("a0", lo=0, hi=10), S("d0", lo=-20, hi=20), 1.03]]]),
    "eom_modify": dict(device="virt", prog=[
        ["declare", "g", "ryd_glob"], ["declare", "l", "ram_glob"],
        ["add", "g", ["cp", 8, 1.0, 0.0, 0.5]],
        ["enable_eom", "g", 2.0, 0.0, -1.0], ["add_eom", "g", 8, 1.4],
        ["modify_eom", "g", 1.0, 0.0, 3.0], ["add_eom", "g", 8, 1.77], ["disable_eom", "g"],
        ["add", "l", ["cp", 7, S("a1", lo=0, hi=10), S("d1", lo=-20, hi=20), 2.14]]]),
    # a user-made detuned delay (constant zero amplitude, detuning, its own phase B) between a pulse of phase A and one of phase B
    "detuned_delay_phase": dict(device="mock", prog=[
        ["declare", "g", "rydberg_global"], ["declare", "l", "rydberg_local", "q1"],
        ["add", "g", ["cp", 8, S("a0", lo=0), S("d0"), 0.5]],
        ["add", "g", ["cp", 6, 0.0, S("d1"), 1.2]],
        ["add", "g", ["cp", 5, S("a1", lo=0), S("d2"), 1.2]],
        ["add", "l", ["cp", 7, S("a2", lo=0), S("d3"), 2.0], "no-delay"],
        ["add", "l", ["cp", 4, 0.0, S("d4"), 0.7], "no-delay"],
        ["add", "l", ["cp", 6, S("a3", lo=0), S("d5"), 0.7], "no-delay"]]),
    # two microwave channels under an SLM mask: the first pulse of mw2 starts later but ends earlier than the first pulse of mw
    "xy_slm_two": dict(device="mock", prog=[
        ["declare", "mw", "mw_global"], ["declare", "mw2", "mw_global"], ["config_slm", ["q1"]],
        ["add", "mw", ["cp", 8, S("a0", lo=0), S("d0"), 0.4]],
        ["delay", "mw2", 2], ["add", "mw2", ["cp", 3, S("a1", lo=0), S("d1"), 1.4], "no-delay"],
        ["add", "mw2", ["cp", 6, S("a2", lo=0), S("d2"), 0.9], "no-delay"]]),
    # two Global channels on the ground-rydberg basis (reusable device), the first one the longest
    "two_glob_ising": dict(device="mock", prog=[
        ["declare", "g1", "rydberg_global"], ["declare", "g2", "rydberg_global"],
        ["add", "g1", ["cp", 9, S("a0", lo=0), S("d0"), 0.0]],
        ["add", "g2", ["cp", 4, S("a1", lo=0), S("d1"), 0.0], "no-delay"],
        ["delay", "g2", 2], ["add", "g2", ["cp", 3, S("a2", lo=0), S("d2"), 0.0], "no-delay"]]),
    # shaped (non-constant) amplitude waveforms whose samples may all be zero, constant detuning, a phase of their own: still pulses
    "zero_amp_shaped": dict(device="mock", prog=[
        ["declare", "g", "rydberg_global"],
        ["add", "g", ["cp", 8, S("a0", lo=0), S("d0"), 0.5]],
        ["add", "g", ["pulse", ["ramp", 6, S("a1", lo=0, hi=5), S("a2", lo=0, hi=5)], ["const", 6, S("d1")], 1.2]],
        ["add", "g", ["pulse", ["custom", [S("c0", lo=0), S("c1", lo=0), S("c2", lo=0), S("c3", lo=0)]], ["const", 4, S("d2")], 2.1]],
        ["add", "g", ["cp", 5, S("a3", lo=0), S("d3"), 0.3]]]),
    # the Global channel g is left in EOM mode and is shorter than l: beyond its end it idles at the off-detuning
    "eom_open_short": dict(device="virt", prog=[
        ["declare", "g", "ryd_glob"], ["declare", "l", "ram_glob"],
        ["enable_eom", "g", 2.0, 0.0, -1.0],
        ["add_eom", "g", 8, 0.3],
        ["add", "l", ["cp", 60, S("a0", lo=0, hi=10), S("d0", lo=-20, hi=20), 0.66], "no-delay"],
        ["add", "l", ["cp", 40, S("a1", lo=0, hi=10), S("d1", lo=-20, hi=20), 1.66], "no-delay"]]),
    "retarget_chain": dict(device="digital", prog=[
        ["declare", "l", "raman_local", "q0"], ["declare", "g", "rydberg_global"],
        ["add", "l", ["cp", 16, S("a0", lo=0, hi=10), S("d0", lo=-20, hi=20), 2.51]],
        ["target", "l", "q1"],
        ["add", "l", ["cp", 16, S("a1", lo=0, hi=10), S("d1", lo=-20, hi=20), 2.88]],
        ["add", "g", ["cp", 20, S("a2", lo=0, hi=10), S("d2", lo=-20, hi=20), 3.25], "no-delay"]]),
}


def ref_channel(cs, n, slots=None):
    """Reference rendering of one channel from its slot list (length n)."""
    from pulser.pulse import Pulse

    amp = [0.0] * n
    det = [0.0] * n
    phase_at = {}
    for sl in (cs.slots if slots is None else slots):
        if not isinstance(sl.type, Pulse):
            continue
        a = l2_samples(sl.type.amplitude)
        d = l2_samples(sl.type.detuning)
        for k, t in enumerate(range(sl.ti, sl.tf)):
            amp[t] = amp[t] + a[k]
            det[t] = det[t] + d[k]
            if not l1.ref_is_detuned_delay(sl.type):
                phase_at[t] = facade._unwrap0(sl.type.phase)
    # "the EOM off-detuning while idling in EOM mode": inside an EOM block every nanosecond that no pulse slot covers
    # sits at the block's off-detuning (whatever kind of slot the scheduler chose to represent the idle time with)
    covered = set()
    for sl in (cs.slots if slots is None else slots):
        if isinstance(sl.type, Pulse):
            covered.update(range(sl.ti, sl.tf))
    for b in cs.eom_blocks:
        end = n if b.tf is None else min(b.tf, n)
        for t in range(max(b.ti, 0), end):
            if t not in covered:
                det[t] = det[t] + float(b.detuning_off)
    return amp, det, phase_at


def l2_samples(wf):
    a = wf.samples.as_array(detach=True)
    return list(a.flat) if a.dtype == object else [float(x) for x in a]


def EQ(a, b):
    a, b = core._np_item(a), core._np_item(b)
    if is_sym(a) or is_sym(b):
        return a == b
    return abs(float(a) - float(b)) <= 1e-9


def h_program(shape):
    P = PROGRAMS[shape["program"]]

    def h(inp):
        stubs.bind(inp)
        import pulser
        from pulser.channels.dmm import DMM
        from pulser.pulse import Pulse

        seq = l2.new_seq(P["device"])
        l2.run_prefix(inp, seq, stretch(P["prog"], shape["stretch"]) if shape.get("stretch") else P["prog"])
        # the reference is written from a COPY of the slot lists taken before sampling (rendering must not edit the schedule)
        import types

        frozen = {name: [types.SimpleNamespace(type=sl.type, ti=sl.ti, tf=sl.tf, targets=frozenset(sl.targets)) for sl in cs.slots]
                  for name, cs in seq._schedule.items()}
        before = l2.snapshot(seq)
        samples = pulser.sampler.sample(seq)
        obs = []
        refs = {}
        for name, cs in seq._schedule.items():
            chs = samples.channel_samples[name]
            n = cs.get_duration()
            obs.append(("channel:length", len(chs.amp) == n and len(chs.det) == n and len(chs.phase) == n))
            amp, det, phase_at = ref_channel(cs, n, frozen[name])
            refs[name] = (amp, det, phase_at)
            A, D, PH = (list(x.as_array(detach=True).flat) for x in (chs.amp, chs.det, chs.phase))
            obs.append(("channel:amp", AND(*[EQ(A[t], amp[t]) for t in range(n)]) if n else True))
            obs.append(("channel:det", AND(*[EQ(D[t], det[t]) for t in range(n)]) if n else True))
            obs.append(("channel:phase", AND(*[EQ(PH[t], phase_at[t]) for t in phase_at]) if phase_at else True))
            # slots reported by the sampler agree with the pulse slots
            pulses = [s for s in frozen[name] if isinstance(s.type, Pulse)]
            obs.append(("channel:slots", len(chs.slots) == len(pulses) and all(
                a.ti == b.ti and a.targets == b.targets and a.tf >= b.tf for a, b in zip(chs.slots, pulses))))
        # ---- extend_duration
        for ext in shape["ext"]:
            for name, cs in seq._schedule.items():
                chs = samples.channel_samples[name]
                n = chs.duration
                e = chs.extend_duration(n + ext)
                A, D, PH = (list(x.as_array(detach=True).flat) for x in (e.amp, e.det, e.phase))
                obs.append(("extend:length", len(A) == n + ext))
                amp, det, phase_at = refs[name]
                in_eom = cs.in_eom_mode()
                off = float(cs.eom_blocks[-1].detuning_off) if in_eom else 0.0
                lastph = list(chs.phase.as_array(detach=True).flat)[-1] if n else 0.0
                obs.append(("extend:keeps_samples", AND(*[AND(EQ(A[t], amp[t]), EQ(D[t], det[t])) for t in range(n)]) if n else True))
                if ext:
                    obs.append(("extend:pads_amp_zero", AND(*[EQ(A[t], 0.0) for t in range(n, n + ext)])))
                    obs.append(("extend:pads_det", AND(*[EQ(D[t], off) for t in range(n, n + ext)])))
                    obs.append(("extend:pads_last_phase", AND(*[EQ(PH[t], lastph) for t in range(n, n + ext)])))
        # ---- per-atom view
        T = samples.max_duration
        qids = list(seq.register.qubit_ids)
        mask_targets = set(seq._slm_mask_targets) if seq._slm_mask_time else set()
        # "while the SLM mask is on": from t=0 to the end of the first pulse any Global (non-DMM) channel plays - the channel whose
        # first pulse starts first decides (computed from the frozen slot copies, not read back from the implementation)
        firsts = []
        for name, cs in seq._schedule.items():
            if cs.channel_obj.addressing != "Global" or isinstance(cs.channel_obj, DMM):
                continue
            for sl in frozen[name]:
                if isinstance(sl.type, Pulse) and not l1.ref_is_detuned_delay(sl.type):
                    firsts.append((sl.ti, sl.tf))
                    break
        mask_end = (min(firsts, key=lambda x: x[0])[1] if firsts else 0) if mask_targets else 0
        obs.append(("nested:mask_window", (list(seq._slm_mask_time)[1:] == ([mask_end] if firsts else [])) if mask_targets else True))
        for all_local in (False, True):
            try:
                nd = samples.to_nested_dict(all_local=all_local)
            except Exception:  # noqa: BLE001  (the per-atom view of a valid sequence always exists)
                obs.append(("nested:completes", False))
                continue
            bases = {cs.channel_obj.basis for cs in seq._schedule.values()}
            for basis in bases:
                # reference attribution
                loc = {q: ([0.0] * T, [0.0] * T) for q in qids}
                glob = ([0.0] * T, [0.0] * T)
                unspecified = {}
                locph = {}  # (atom, t) -> phases of the pulses attributed to the atom at t in the per-atom entries
                for name, cs in seq._schedule.items():
                    ch = cs.channel_obj
                    if ch.basis != basis:
                        continue
                    is_dmm = isinstance(ch, DMM)
                    wmap = cs.detuning_map.get_qubit_weight_map(seq.register.qubits) if is_dmm else None
                    in_xy = basis == "XY"
                    as_global = ch.addressing == "Global" and not all_local and not is_dmm
                    for sl in frozen[name]:
                        if not isinstance(sl.type, Pulse):
                            continue
                        a = l2_samples(sl.type.amplitude)
                        d = l2_samples(sl.type.detuning)
                        for k, t in enumerate(range(sl.ti, sl.tf)):
                            if as_global and not (in_xy and t < mask_end):
                                glob[0][t] = glob[0][t] + a[k]
                                glob[1][t] = glob[1][t] + d[k]
                                continue
                            for q in sl.targets:
                                if in_xy and q in mask_targets and t < mask_end:
                                    continue  # withheld from masked atoms while the mask is on
                                w = wmap[q] if is_dmm else 1.0
                                loc[q][0][t] = loc[q][0][t] + a[k]
                                loc[q][1][t] = loc[q][1][t] + d[k] * w
                                if not is_dmm:
                                    locph.setdefault((q, t), []).append((facade._unwrap0(sl.type.phase), l1.ref_is_detuned_delay(sl.type), name))
                    if as_global and cs.in_eom_mode() and cs.get_duration() < T:
                        # "extending only pads ... off-detuning if still in EOM mode": the shorter channel idles at detuning_off
                        for t in range(cs.get_duration(), T):
                            glob[1][t] = glob[1][t] + float(cs.eom_blocks[-1].detuning_off)
                    if not as_global and cs.in_eom_mode() and cs.get_duration() < T:
                        # the per-atom view of that padding is not specified (no slot covers it): those times are skipped
                        for q in qids:
                            unspecified.setdefault(q, set()).update(range(cs.get_duration(), T))
                tag = "nested_all_local" if all_local else "nested"
                g = nd["Global"].get(basis)
                obs.append((tag + ":global_amp", AND(*[EQ(g["amp"][t] if g else 0.0, glob[0][t]) for t in range(T)])))
                obs.append((tag + ":global_det", AND(*[EQ(g["det"][t] if g else 0.0, glob[1][t]) for t in range(T)])))
                L = nd["Local"].get(basis, {})
                for q in qids:
                    e = L.get(q)
                    obs.append((tag + ":atom_amp", AND(*[EQ(e["amp"][t] if e else 0.0, loc[q][0][t]) for t in range(T)])))
                    obs.append((tag + ":atom_det", AND(*[EQ(e["det"][t] if e else 0.0, loc[q][1][t]) for t in range(T)
                                                         if t not in unspecified.get(q, ())])))
                    # where exactly one pulse drives the atom (per-atom entry), the atom's phase there is that pulse's phase
                    # (two slots at once on one atom - even when one of them has zero amplitude - add their phases: outside the claim)
                    single = [(t, ph[0][0], ph[0][2]) for (qq, t), ph in locph.items() if qq == q and len(ph) == 1 and not ph[0][1]]
                    globs = [nm for nm, c2 in seq._schedule.items() if c2.channel_obj.basis == basis and not isinstance(c2.channel_obj, DMM)
                             and c2.channel_obj.addressing == "Global"]
                    if single and e is not None:
                        # (with several Global channels on the basis the obligation gets a label of its own: finding F17 shows there)
                        lab = tag + (":atom_phase" if len(globs) < 2 else ":atom_phase_with_other_global_channels")
                        obs.append((lab, AND(*[EQ(e["phase"][t], p_) for t, p_, _ in single])))
                        if len(globs) >= 2:
                            ext = {nm: list(samples.channel_samples[nm].extend_duration(T).phase) for nm in globs}
                            inp.publish("phases_of_other_global_channels_added@" + lab, AND(*[
                                EQ(e["phase"][t], p_ + sum(ext[nm][t] for nm in globs if nm != own)) for t, p_, own in single]))
        # ---- sample(seq, extended_duration=D): every channel padded to D (D = the sequence duration included)
        Tseq = seq.get_duration()
        for ext in shape["ext"]:
            try:
                s2 = pulser.sampler.sample(seq, extended_duration=Tseq + ext)
            except Exception:  # noqa: BLE001
                obs.append(("extended:completes", False))
                continue
            for name, cs in seq._schedule.items():
                c2 = s2.channel_samples[name]
                A2, D2 = (list(x.as_array(detach=True).flat) for x in (c2.amp, c2.det))
                n = cs.get_duration()
                amp, det, _ = refs[name]
                off = float(cs.eom_blocks[-1].detuning_off) if cs.in_eom_mode() else 0.0
                obs.append(("extended:length", len(A2) == Tseq + ext and len(D2) == Tseq + ext))
                if len(A2) == Tseq + ext and len(D2) == Tseq + ext:
                    obs.append(("extended:keeps_samples", AND(*[AND(EQ(A2[t], amp[t]), EQ(D2[t], det[t])) for t in range(n)]) if n else True))
                    obs.append(("extended:pads", AND(*[AND(EQ(A2[t], 0.0), EQ(D2[t], off)) for t in range(n, Tseq + ext)]) if Tseq + ext > n else True))
        # a second rendering of the same samples / of the same sequence gives the same views, and none of it touched the sequence
        again = pulser.sampler.sample(seq)
        for all_local in (False, True):
            try:
                n1, n2 = samples.to_nested_dict(all_local=all_local), again.to_nested_dict(all_local=all_local)
            except Exception:  # noqa: BLE001
                obs.append(("nested:completes", False))
                continue
            same = []
            for addr in ("Global", "Local"):
                same.append(set(n1[addr]) == set(n2[addr]))
                for basis in set(n1[addr]) & set(n2[addr]):
                    if addr == "Local":
                        same.append(set(n1[addr][basis]) == set(n2[addr][basis]) and set(n1[addr][basis]) <= set(qids))
            obs.append(("nested:repeatable_same_atoms", all(same)))
            # ... with the same VALUES: `samples` was already viewed above (views hand out nothing that later views depend on),
            # `again` is a fresh rendering
            obs.append(("nested:repeatable_same_values", nd_equal(n1, n2)))
            # extending AFTER the view was taken: the per-atom view of the extended samples is the view of a fresh extended rendering
            try:
                e1 = samples.extend_duration(Tseq + 5).to_nested_dict(all_local=all_local)
                e2 = pulser.sampler.sample(seq, extended_duration=Tseq + 5).to_nested_dict(all_local=all_local)
                obs.append(("extended:view_after_view", nd_equal(e1, e2, length=Tseq + 5)))
            except Exception:  # noqa: BLE001
                obs.append(("extended:completes", False))
        obs.append(("sampling:leaves_sequence_untouched", l2.snap_equal(before, l2.snapshot(seq))))
        return obs

    return h


def nd_equal(n1, n2, length=None):
    """Two nested dictionaries hold the same arrays (element-wise, proxies included)."""
    terms = []

    def arrays(d):
        out = {}
        for addr in ("Global", "Local"):
            for basis, v in d[addr].items():
                if addr == "Global":
                    for q_, arr in v.items():
                        out[(addr, basis, None, q_)] = arr
                else:
                    for atom, qd in v.items():
                        for q_, arr in qd.items():
                            out[(addr, basis, atom, q_)] = arr
        return out

    a1, a2 = arrays(n1), arrays(n2)
    if set(a1) != set(a2):
        return False
    for k in a1:
        x, y = list(np.asarray(a1[k]).flat), list(np.asarray(a2[k]).flat)
        if len(x) != len(y) or (length is not None and len(x) != length):
            return False
        terms += [EQ(u, v) for u, v in zip(x, y)]
    return AND(*terms) if terms else True


def stretch(prog, add):
    """The same program with every waveform / delay / EOM pulse duration lengthened by `add` ns."""
    def wf(w):
        if isinstance(w, list) and w and w[0] in ("const", "ramp", "blackman"):
            return [w[0], w[1] + add] + list(w[2:])
        return w

    out = []
    for op in prog:
        op = list(op)
        if op[0] == "add":
            p = list(op[2])
            if p[0] == "cp":
                p[1] = p[1] + add
            elif p[0] == "pulse" and not any(isinstance(x, list) and x and x[0] == "custom" for x in p[1:3]):
                p[1], p[2] = wf(p[1]), wf(p[2])
            op[2] = p
        elif op[0] == "delay":
            op[2] = op[2] + add
        elif op[0] == "add_dmm":
            op[2] = wf(op[2])
        elif op[0] == "add_eom":
            op[2] = op[2] + add
        out.append(op)
    return out


def kernels(tier):
    quick = tier == "quick"
    ks = []
    for name in PROGRAMS:
        ks.append(("program", dict(program=name, ext=[0, 3] if quick else [0, 1, 5])))
        if not quick:
            step = 4 if PROGRAMS[name]["device"] in ("virt", "digital") else 1
            for k in (1, 3):
                ks.append(("program", dict(program=name, ext=[0, 2], stretch=k * step)))
    return ks


def harness(kernel, shape):
    return h_program(shape)
