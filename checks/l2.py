"""L2: real Sequence objects driven by small programs with symbolic arguments.

A *program* is a list of op descriptors (JSON-able).  Numeric arguments are
either constants or ``{"s": name, "k": kind, "lo":..., "hi":...}`` which the
interpreter turns into solver variables (symbolic mode) or reads from the
replayed assignment (concrete mode).
"""
from __future__ import annotations

import math

import numpy as np

from symx import core, facade, stubs
from symx.core import AND, IFF, IMPLIES, ITE, NOT, OR, is_sym, smax

TWO_PI = 2 * np.pi


def setup(stub_buffers=True):
    import pulser.register.weight_maps as wm
    import pulser.register.traps as tr
    import pulser.register._coordinates as co
    import pulser.sampler.sampler as sp

    import pulser.sequence.helpers._seq_str as ss
    import pulser.devices._device_datacls as dd

    facade.install(extra_np=(wm, tr, co), extra_float=(ss, wm, dd), extra_int=(dd,))
    stubs.init()
    if stub_buffers:
        stubs.install_buffer_stub()
    core.HASH_ZERO[0] = True


def setup_concrete(stub_buffers=True):
    stubs.init()
    if stub_buffers:
        stubs.install_buffer_stub()


# --------------------------------------------------------------------------
# devices / registers
# --------------------------------------------------------------------------


def mk_device(kind, inp=None):
    import pulser
    from pulser.channels import DMM, Microwave, Raman, Rydberg
    from pulser.channels.eom import RydbergBeam, RydbergEOM
    from pulser.devices import AnalogDevice, DigitalAnalogDevice, MockDevice, VirtualDevice

    if kind == "mock":
        return MockDevice
    if kind == "mock_noreuse":
        # every channel kind of MockDevice (microwave included), each declarable once
        import dataclasses

        return dataclasses.replace(MockDevice, name="MockNoReuse", reusable_channels=False)
    if kind == "mock_noise":
        # a virtual device that carries a default noise model
        import dataclasses

        from pulser.noise_model import NoiseModel

        return dataclasses.replace(MockDevice, name="MockNoise", default_noise_model=NoiseModel(relaxation_rate=0.125, dephasing_rate=0.25))
    if kind == "analog":
        return AnalogDevice
    if kind == "digital":
        return DigitalAnalogDevice
    if kind in ("virt", "virt_nomod", "virt_maxseq", "virt_reuse", "virt_tightdmm", "virt_beams_rb"):
        mod = None if kind == "virt_nomod" else 20.0  # rise time 24 ns
        eom = None if mod is None else RydbergEOM(
            limiting_beam=RydbergBeam.RED, max_limiting_amp=30 * TWO_PI, intermediate_detuning=700 * TWO_PI,
            mod_bandwidth=48.0, controlled_beams=((RydbergBeam.RED, RydbergBeam.BLUE) if kind == "virt_beams_rb" else (RydbergBeam.BLUE,)),
            custom_buffer_time=None)
        return VirtualDevice(
            name="virt", dimensions=2, rydberg_level=60, max_atom_num=10, max_radial_distance=50, min_atom_distance=4,
            supports_slm_mask=True, reusable_channels=(kind == "virt_reuse"),
            max_sequence_duration=(4000 if kind == "virt_maxseq" else None),
            channel_objects=(
                Rydberg.Global(2 * TWO_PI * 20, TWO_PI * 2.5, clock_period=4, min_duration=8, max_duration=10000,
                               mod_bandwidth=mod, eom_config=eom),
                Rydberg.Local(2 * TWO_PI * 20, TWO_PI * 10, min_retarget_interval=100, fixed_retarget_t=12, max_targets=2,
                              clock_period=4, min_duration=8, max_duration=10000, mod_bandwidth=mod),
                Raman.Local(2 * TWO_PI * 20, TWO_PI * 10, min_retarget_interval=40, fixed_retarget_t=0, max_targets=1,
                            clock_period=2, min_duration=4, max_duration=10000, mod_bandwidth=(None if mod is None else 40.0)),
                Raman.Global(2 * TWO_PI * 20, TWO_PI * 10, clock_period=1, min_duration=1, max_duration=10000),
            ),
            channel_ids=("ryd_glob", "ryd_loc", "ram_loc", "ram_glob"),
            dmm_objects=(DMM(clock_period=4, min_duration=8, max_duration=10000, mod_bandwidth=mod,
                             bottom_detuning=(-TWO_PI * 10 if kind == "virt_tightdmm" else -2 * TWO_PI * 20),
                             total_bottom_detuning=(-TWO_PI * 15 if kind == "virt_tightdmm" else -2 * TWO_PI * 2000)),),
        )
    raise ValueError(kind)


REG_COORDS = {"q0": (0.0, 0.0), "q1": (5.0, 0.0), "q2": (0.0, 5.0)}


def mk_register(kind="reg3"):
    from pulser import Register

    if kind == "reg2":
        return Register({k: REG_COORDS[k] for k in ("q0", "q1")})
    if kind == "reg3":
        return Register(dict(REG_COORDS))
    if kind == "layout3":
        from pulser.register.register_layout import RegisterLayout

        lay = RegisterLayout([[0.0, 0.0], [5.0, 0.0], [0.0, 5.0], [5.0, 5.0], [10.0, 0.0], [10.0, 5.0]], slug="lay6")
        return lay.define_register(0, 2, 1, qubit_ids=("q0", "q1", "q2"))
    if kind == "layout3d":  # a 3D register from a 3D layout, traps chosen in non-ascending order
        from pulser.register.register_layout import RegisterLayout

        lay = RegisterLayout([[0.0, 0.0, 0.0], [5.0, 0.0, 0.0], [0.0, 5.0, 0.0], [5.0, 5.0, 0.0], [0.0, 0.0, 6.0], [5.0, 0.0, 6.0]], slug="lay3d")
        return lay.define_register(4, 1, 3, qubit_ids=("q0", "q1", "q2"))
    if kind == "regint":  # integer ids, the first one is 0 (a falsy id)
        return Register({i: REG_COORDS[k] for i, k in enumerate(("q0", "q1", "q2"))})
    if kind == "mapped3b":  # ... and with qubits={"q0": 2, "q1": 5}
        from pulser.register.register_layout import RegisterLayout

        lay = RegisterLayout([[0.0, 0.0], [5.0, 0.0], [0.0, 5.0], [5.0, 5.0], [10.0, 0.0], [10.0, 5.0]], slug="lay6")
        return lay.define_register(2, 5, qubit_ids=("q0", "q1"))
    if kind == "mapped3full":  # ... with every qubit mapped: qubits={"q2": 5, "q0": 1, "q1": 4} (declared order q0, q1, q2)
        from pulser.register.register_layout import RegisterLayout

        lay = RegisterLayout([[0.0, 0.0], [5.0, 0.0], [0.0, 5.0], [5.0, 5.0], [10.0, 0.0], [10.0, 5.0]], slug="lay6")
        return lay.define_register(1, 4, 5, qubit_ids=("q0", "q1", "q2"))
    if kind == "mapped3":  # the concrete register that mappable3 resolves to with qubits={"q0": 1, "q1": 4}
        from pulser.register.register_layout import RegisterLayout

        lay = RegisterLayout([[0.0, 0.0], [5.0, 0.0], [0.0, 5.0], [5.0, 5.0], [10.0, 0.0], [10.0, 5.0]], slug="lay6")
        return lay.define_register(1, 4, qubit_ids=("q0", "q1"))
    if kind == "mappable3":
        from pulser.register.mappable_reg import MappableRegister
        from pulser.register.register_layout import RegisterLayout

        lay = RegisterLayout([[0.0, 0.0], [5.0, 0.0], [0.0, 5.0], [5.0, 5.0], [10.0, 0.0], [10.0, 5.0]], slug="lay6")
        return MappableRegister(lay, "q0", "q1", "q2")
    raise ValueError(kind)


# --------------------------------------------------------------------------
# arguments
# --------------------------------------------------------------------------


def ev(expr, env):
    """Evaluate an expression descriptor over env (name -> Variable | value).
    The same Python operators build a ParamObj on Variables and a proxy /
    number on values."""
    import numpy as _np

    if isinstance(expr, dict) and "lit" in expr:
        return list(expr["lit"])
    if not isinstance(expr, list):
        return expr
    op = expr[0]
    if op == "var":
        v = env[expr[1]]
        return v
    if op == "item":
        v = env[expr[1]]
        return v[expr[2]]
    if op == "slice":
        v = env[expr[1]]
        return v[expr[2]:expr[3]:(expr[4] if len(expr) > 4 else None)]
    a = [ev(x, env) for x in expr[1:]]
    if any(isinstance(x, list) for x in a) and not any(hasattr(x, "variables") for x in a):
        # direct construction with array values: element-wise, as numpy does for the built variables
        a = [_np.asarray(x, dtype=object if any(is_sym(v) for v in (x if isinstance(x, list) else [x])) else float) if isinstance(x, list) else x for x in a]
    if op == "add":
        return a[0] + a[1]
    if op == "sub":
        return a[0] - a[1]
    if op == "mul":
        return a[0] * a[1]
    if op == "div":
        return a[0] / a[1]
    if op == "floordiv":
        return a[0] // a[1]
    if op == "mod":
        return a[0] % a[1]
    if op == "pow":
        return a[0] ** a[1]
    if op == "neg":
        return -a[0]
    if op == "abs":
        return abs(a[0])
    if op in ("round", "round2", "floor", "ceil"):
        # rounding functions (concrete values only: built with fixed variable values)
        x = a[0]
        if op == "round2":
            return round(x, 2)
        return getattr(_np, op)(x)
    if op in ("sin", "cos", "exp", "sqrt", "tan", "tanh", "log"):
        from symx import facade as _f

        x = a[0]
        if hasattr(x, "variables"):
            return getattr(_np, op)(x)
        return getattr(_f.FACADE if _f.has_sym(x) else _np, op)(x)
    raise ValueError(op)


def val(inp, a):
    """Resolve an argument descriptor to a value (proxy or concrete)."""
    if isinstance(a, dict) and "e" in a:
        r = ev(a["e"], inp.env)
        return r
    if isinstance(a, dict) and "s" in a:
        k = a.get("k", "real")
        if k == "real":
            return inp.real(a["s"], a.get("lo"), a.get("hi"))
        if k == "int":
            return inp.int(a["s"], a.get("lo"), a.get("hi"))
        if k == "fix":
            return inp.fix(a["s"], a.get("p", 7), a.get("lo"), a.get("hi"))
        if k == "mult":
            return inp.mult(a["s"], a["clock"], a.get("lo"), a.get("hi"))
        raise ValueError(k)
    return a


def mk_waveform(inp, w):
    from pulser.waveforms import (BlackmanWaveform, CompositeWaveform, ConstantWaveform, CustomWaveform,
                                  RampWaveform)

    t = w[0]
    if t == "const":
        return ConstantWaveform(val(inp, w[1]), val(inp, w[2]))
    if t == "ramp":
        return RampWaveform(val(inp, w[1]), val(inp, w[2]), val(inp, w[3]))
    if t == "const_kw":
        return ConstantWaveform(duration=val(inp, w[1]), value=val(inp, w[2]))
    if t == "ramp_kw":
        return RampWaveform(duration=val(inp, w[1]), start=val(inp, w[2]), stop=val(inp, w[3]))
    if t == "custom":
        if isinstance(w[1], dict):  # an array-valued expression
            return CustomWaveform(val(inp, w[1]))
        return CustomWaveform([val(inp, x) for x in w[1]])
    if t == "blackman":
        return BlackmanWaveform(val(inp, w[1]), val(inp, w[2]))
    if t == "blackman_max":
        return BlackmanWaveform.from_max_val(val(inp, w[1]), val(inp, w[2]))
    if t == "interp":
        from pulser.waveforms import InterpolatedWaveform

        kw = dict(times=w[3]) if len(w) > 3 and w[3] is not None else {}
        if len(w) > 4:
            kw.update(w[4])  # interpolator name and its options
        return InterpolatedWaveform(val(inp, w[1]), val(inp, w[2]), **kw)
    if t == "composite":
        return CompositeWaveform(*[mk_waveform(inp, x) for x in w[1:]])
    raise ValueError(t)


def mk_pulse(inp, p):
    from pulser.pulse import Pulse

    t = p[0]
    if t == "cp":  # ConstantPulse(duration, amp, det, phase, post)
        return Pulse.ConstantPulse(val(inp, p[1]), val(inp, p[2]), val(inp, p[3]), val(inp, p[4]),
                                   val(inp, p[5]) if len(p) > 5 else 0.0)
    if t == "pulse":
        return Pulse(mk_waveform(inp, p[1]), mk_waveform(inp, p[2]), val(inp, p[3]), val(inp, p[4]) if len(p) > 4 else 0.0)
    if t == "pulse_kw":  # every argument by keyword
        return Pulse(amplitude=mk_waveform(inp, p[1]), detuning=mk_waveform(inp, p[2]), phase=val(inp, p[3]))
    if t == "cdet_kw":
        return Pulse.ConstantDetuning(amplitude=mk_waveform(inp, p[1]), detuning=val(inp, p[2]), phase=val(inp, p[3]))
    if t == "cdet":
        return Pulse.ConstantDetuning(mk_waveform(inp, p[1]), val(inp, p[2]), val(inp, p[3]), val(inp, p[4]) if len(p) > 4 else 0.0)
    if t == "camp":
        return Pulse.ConstantAmplitude(val(inp, p[1]), mk_waveform(inp, p[2]), val(inp, p[3]), val(inp, p[4]) if len(p) > 4 else 0.0)
    raise ValueError(t)


# --------------------------------------------------------------------------
# interpreter
# --------------------------------------------------------------------------

REFUSALS = (ValueError, RuntimeError, TypeError, NotImplementedError, IndexError, KeyError)


KW_MODE = [False]  # when set, run_op passes every argument BY KEYWORD (the stored calls then hold kwargs instead of args)


def run_op_kw(inp, seq, op):
    n = op[0]
    if n == "declare":
        kw = dict(name=op[1], channel_id=op[2])
        if len(op) > 3 and op[3] is not None:
            kw["initial_target"] = op[3]
        return seq.declare_channel(**kw)
    if n == "add":
        return seq.add(pulse=mk_pulse(inp, op[2]), channel=op[1], **({"protocol": op[3]} if len(op) > 3 else {}))
    if n == "delay":
        return seq.delay(duration=val(inp, op[2]), channel=op[1], **({"at_rest": op[3]} if len(op) > 3 else {}))
    if n == "target":
        return seq.target(qubits=op[2], channel=op[1])
    if n == "target_index":
        return seq.target_index(qubits=val(inp, op[2]), channel=op[1])
    if n == "phase_shift" and not op[2]:
        return seq.phase_shift(phi=val(inp, op[1]), **({"basis": op[3]} if len(op) > 3 else {}))
    if n == "measure":
        return seq.measure(**({"basis": op[1]} if len(op) > 1 else {}))
    if n == "enable_eom":
        kw = {k: val(inp, v) for k, v in (dict(op[5]) if len(op) > 5 else {}).items()}
        if len(op) > 4 and op[4] is not None:
            kw["optimal_detuning_off"] = val(inp, op[4])
        return seq.enable_eom_mode(channel=op[1], amp_on=val(inp, op[2]), detuning_on=val(inp, op[3]), **kw)
    if n == "modify_eom":
        kw = {k: val(inp, v) for k, v in (dict(op[5]) if len(op) > 5 else {}).items()}
        if len(op) > 4 and op[4] is not None:
            kw["optimal_detuning_off"] = val(inp, op[4])
        return seq.modify_eom_setpoint(channel=op[1], amp_on=val(inp, op[2]), detuning_on=val(inp, op[3]), **kw)
    if n == "disable_eom":
        return seq.disable_eom_mode(channel=op[1], **(dict(op[2]) if len(op) > 2 else {}))
    if n == "add_eom":
        kw = {k: val(inp, v) for k, v in (dict(op[5]) if len(op) > 5 else {}).items()}
        return seq.add_eom_pulse(channel=op[1], duration=val(inp, op[2]), phase=val(inp, op[3]), **kw)
    if n == "add_eom_pos":
        names = ("channel", "duration", "phase", "post_phase_shift", "protocol", "correct_phase_drift")
        return seq.add_eom_pulse(**{k: val(inp, v) for k, v in zip(names, op[1:])})
    if n == "config_slm":
        return seq.config_slm_mask(qubits=op[1], **({"dmm_id": op[2]} if len(op) > 2 else {}))
    if n == "config_dmap":
        reg = seq.get_register()
        dm = reg.define_detuning_map({q: val(inp, w) for q, w in op[1].items()})
        return seq.config_detuning_map(detuning_map=dm, dmm_id=op[2])
    if n == "add_dmm":
        return seq.add_dmm_detuning(waveform=mk_waveform(inp, op[2]), dmm_name=op[1], **({"protocol": op[3]} if len(op) > 3 else {}))
    if n == "set_mag":
        bx, by, bz = [val(inp, x) for x in op[1]]
        return seq.set_magnetic_field(bx=bx, by=by, bz=bz)
    return None  # (no keyword form: variadic arguments)


def run_op(inp, seq, op):
    """Execute one op descriptor on a Sequence; returns the value (if any)."""
    if KW_MODE[0] and (op[0] not in ("align", "phase_shift_index") and not (op[0] == "phase_shift" and op[2])):
        return run_op_kw(inp, seq, op)
    n = op[0]
    if n == "declare":
        kw = {}
        if len(op) > 3 and op[3] is not None:
            kw["initial_target"] = op[3]
        return seq.declare_channel(op[1], op[2], **kw)
    if n == "add":
        return seq.add(mk_pulse(inp, op[2]), op[1], *( [op[3]] if len(op) > 3 else [] ))
    if n == "delay":
        if len(op) > 4 and op[4] == "positional":
            return seq.delay(val(inp, op[2]), op[1], op[3])
        return seq.delay(val(inp, op[2]), op[1], **({"at_rest": op[3]} if len(op) > 3 else {}))
    if n == "target":
        return seq.target(op[2], op[1])
    if n == "target_index":
        return seq.target_index(val(inp, op[2]), op[1])
    if n == "phase_shift":
        return seq.phase_shift(val(inp, op[1]), *op[2], **({"basis": op[3]} if len(op) > 3 else {}))
    if n == "phase_shift_index":
        return seq.phase_shift_index(val(inp, op[1]), *op[2], **({"basis": op[3]} if len(op) > 3 else {}))
    if n == "align":
        return seq.align(*op[1], **({"at_rest": op[2]} if len(op) > 2 else {}))
    if n == "measure":
        return seq.measure(*( [op[1]] if len(op) > 1 else [] ))
    if n == "enable_eom":
        kw = dict(op[5]) if len(op) > 5 else {}
        kw = {k: val(inp, v) for k, v in kw.items()}
        return seq.enable_eom_mode(op[1], val(inp, op[2]), val(inp, op[3]), *( [val(inp, op[4])] if len(op) > 4 and op[4] is not None else [] ), **kw)
    if n == "modify_eom":
        kw = dict(op[5]) if len(op) > 5 else {}
        kw = {k: val(inp, v) for k, v in kw.items()}
        return seq.modify_eom_setpoint(op[1], val(inp, op[2]), val(inp, op[3]), *( [val(inp, op[4])] if len(op) > 4 and op[4] is not None else [] ), **kw)
    if n == "disable_eom":
        kw = dict(op[2]) if len(op) > 2 else {}
        return seq.disable_eom_mode(op[1], **kw)
    if n == "add_eom_pos":  # every argument positional (4, 5 or 6 of them)
        return seq.add_eom_pulse(*[val(inp, v) for v in op[1:]])
    if n == "add_eom":
        kw = dict(op[5]) if len(op) > 5 else {}
        kw = {k: val(inp, v) for k, v in kw.items()}
        return seq.add_eom_pulse(op[1], val(inp, op[2]), val(inp, op[3]), **kw)
    if n == "config_slm":
        return seq.config_slm_mask(op[1], *( [op[2]] if len(op) > 2 else [] ))
    if n == "config_dmap":
        from pulser.register.weight_maps import DetuningMap

        reg = seq.get_register()
        dm = reg.define_detuning_map({q: val(inp, w) for q, w in op[1].items()})
        return seq.config_detuning_map(dm, op[2])
    if n == "config_dmap_traps":  # a detuning map over TRAPS of the register's layout (also for mappable registers)
        dm = seq._register.layout.define_detuning_map({t: val(inp, w) for t, w in op[1].items()})
        return seq.config_detuning_map(dm, op[2])
    if n == "add_dmm":
        return seq.add_dmm_detuning(mk_waveform(inp, op[2]), op[1], *( [op[3]] if len(op) > 3 else [] ))
    if n == "set_mag":
        return seq.set_magnetic_field(*[val(inp, x) for x in op[1]])
    raise ValueError("unknown op %r" % (op,))


def run_program(inp, seq, program, stop_on_refusal=True):
    """Runs all ops; returns list of (op, exception-or-None)."""
    out = []
    for op in program:
        try:
            run_op(inp, seq, op)
            out.append((op, None))
        except REFUSALS as e:
            out.append((op, e))
            if stop_on_refusal:
                break
    return out


def run_prefix(inp, seq, program):
    """Runs ops that are *assumed* to succeed: a path on which one of them
    is refused is discarded (it is not a history the harness is about)."""
    for op in program:
        try:
            run_op(inp, seq, op)
        except REFUSALS:
            raise core.Infeasible()


def new_seq(device_kind, reg_kind="reg3", inp=None):
    from pulser import Sequence

    return Sequence(mk_register(reg_kind), mk_device(device_kind, inp))


# --------------------------------------------------------------------------
# observation
# --------------------------------------------------------------------------


def wf_desc(wf):
    """Defining data of a waveform as (class name, [values])."""
    from pulser.waveforms import (BlackmanWaveform, CompositeWaveform, ConstantWaveform, CustomWaveform,
                                  InterpolatedWaveform, KaiserWaveform, RampWaveform)

    def u(x):
        return facade._unwrap0(x)

    if isinstance(wf, ConstantWaveform):
        return ("Constant", [wf._duration, u(wf._value)])
    if isinstance(wf, RampWaveform):
        return ("Ramp", [wf._duration, u(wf._start), u(wf._stop)])
    if isinstance(wf, BlackmanWaveform):
        return ("Blackman", [wf._duration, u(wf._area)])
    if isinstance(wf, CustomWaveform):
        a = wf._samples_arr._array
        return ("Custom", [len(a)] + list(a.flat))
    if isinstance(wf, CompositeWaveform):
        out = ["Composite", []]
        for w in wf._waveforms:
            d = wf_desc(w)
            out[1].append(d[0])
            out[1].extend(d[1])
        return (out[0], out[1])
    if stubs.SymWaveform is not None and isinstance(wf, stubs.SymWaveform):
        return ("Sym:" + wf._name, [wf._duration])
    try:  # Interpolated / Kaiser (concrete): compare by samples
        return (type(wf).__name__, [float(x) for x in wf._samples.as_array(detach=True)])
    except Exception:  # noqa: BLE001
        return (type(wf).__name__, [id(wf)])


def snapshot(seq):
    """Structural snapshot of everything a Sequence holds.  Values may be
    proxies; compare two snapshots with snap_equal()."""
    from pulser.pulse import Pulse

    s = {}
    sched = {}
    for name, cs in seq._schedule.items():
        slots = []
        for sl in cs.slots:
            if isinstance(sl.type, Pulse):
                p = sl.type
                typ = ("pulse", wf_desc(p.amplitude), wf_desc(p.detuning), facade._unwrap0(p.phase),
                       facade._unwrap0(p.post_phase_shift))
            else:
                typ = (sl.type,)
            slots.append((typ, sl.ti, sl.tf, frozenset(str(q) for q in sl.targets)))  # (ids as strings: the abstract repr stringifies them)
        blocks = [(facade._unwrap0(b.rabi_freq), facade._unwrap0(b.detuning_on), facade._unwrap0(b.detuning_off),
                   b.ti, b.tf, tuple(b.switching_beams)) for b in cs.eom_blocks]
        extra = getattr(cs, "_waiting_for_first_pulse", None)
        sched[name] = dict(id=cs.channel_id, slots=slots, blocks=blocks, waiting=extra)
    s["schedule"] = sched
    s["basis_ref"] = {
        b: {str(q): (list(r.phase._times), list(r.phase._phases), r.last_used) for q, r in d.items()}
        for b, d in seq._basis_ref.items()
    }
    s["calls"] = [(c.name, repr_args(c.args), repr_args(c.kwargs)) for c in seq._calls]
    s["to_build_calls"] = [(c.name, repr_args(c.args), repr_args(c.kwargs)) for c in seq._to_build_calls]
    s["flags"] = dict(building=seq._building, in_xy=seq._in_xy, in_ising=seq._in_ising_value,
                      mag=None if seq._mag_field is None else tuple(seq._mag_field), empty=seq._empty_sequence,
                      slm_targets=frozenset(str(q) for q in seq._slm_mask_targets), slm_dmm=seq._slm_mask_dmm,
                      measurement=getattr(seq, "_measurement", None), param_meas=seq._param_measurement,
                      variables=tuple(sorted(seq._variables)))
    return s


def repr_args(a):
    """A comparable rendering of call arguments (identity for objects)."""
    if isinstance(a, dict):
        return tuple(sorted((k, repr_args(v)) for k, v in a.items()))
    if isinstance(a, (list, tuple)):
        return tuple(repr_args(x) for x in a)
    if is_sym(a) or isinstance(a, (int, float, str, bool, type(None))):
        return ("v", a)
    if isinstance(a, (set, frozenset)):
        return ("set", frozenset(a))
    return ("obj", id(a))


def _eq(a, b):
    """Deep equality producing a list of terms (bools / SBools)."""
    if is_sym(a) or is_sym(b):
        if a is None or b is None or isinstance(a, (str, tuple, list, dict)) or isinstance(b, (str, tuple, list, dict)):
            return [False]
        return [a == b]
    if isinstance(a, (tuple, list)) and isinstance(b, (tuple, list)):
        if len(a) != len(b):
            return [False]
        out = []
        for x, y in zip(a, b):
            out += _eq(x, y)
        return out
    if isinstance(a, dict) and isinstance(b, dict):
        if set(a) != set(b):
            return [False]
        out = []
        for k in a:
            out += _eq(a[k], b[k])
        return out
    if isinstance(a, float) and isinstance(b, float) and math.isnan(a) and math.isnan(b):
        return [True]
    if isinstance(a, np.ndarray) or isinstance(b, np.ndarray):
        try:
            aa, bb = np.asarray(a, dtype=float), np.asarray(b, dtype=float)
            return [bool(aa.shape == bb.shape and np.allclose(aa, bb, rtol=1e-9, atol=1e-9))]
        except (TypeError, ValueError):
            return [bool(np.array_equal(a, b))]
    if isinstance(a, (float, np.floating)) and isinstance(b, (float, np.floating, int)) or isinstance(b, (float, np.floating)) and isinstance(a, int):
        # concrete binary64 values recomputed on another path may differ by rounding (the code itself compares with isclose)
        return [bool(abs(float(a) - float(b)) <= 1e-9 * (1.0 + abs(float(a))))]
    r = a == b
    return [bool(r)]


def snap_equal(a, b):
    ts = _eq(a, b)
    return AND(*ts) if ts else True


def snap_diff(a, b, path=""):
    """Concrete diagnostic: first differing path (for messages)."""
    if isinstance(a, dict) and isinstance(b, dict):
        for k in a:
            if k not in b:
                return path + "/" + str(k)
            d = snap_diff(a[k], b[k], path + "/" + str(k))
            if d:
                return d
        return None
    if isinstance(a, (list, tuple)) and isinstance(b, (list, tuple)):
        if len(a) != len(b):
            return path + "#len"
        for i, (x, y) in enumerate(zip(a, b)):
            d = snap_diff(x, y, "%s[%d]" % (path, i))
            if d:
                return d
        return None
    if is_sym(a) or is_sym(b):
        return None
    return None if a == b else path


def timeline(seq):
    """Timeline part of the snapshot (what 'identical timeline' compares)."""
    s = snapshot(seq)
    if not seq.is_register_mappable():
        # a sequence built from a mappable register keeps trackers for the ids it did not map: not part of its behaviour
        ids = set(str(q) for q in seq.register.qubit_ids)
        s["basis_ref"] = {b: {q: t for q, t in d.items() if q in ids} for b, d in s["basis_ref"].items()}
    return dict(schedule={n: dict(slots=v["slots"], blocks=v["blocks"]) for n, v in s["schedule"].items()},
                basis_ref={b: {q: (t[1][-1],) for q, t in d.items()} for b, d in s["basis_ref"].items()},
                measurement=s["flags"]["measurement"])
