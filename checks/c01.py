"""C01 - every scheduled pulse respects the limits of its channel and device.

Kernels (each runs the real function on proxies):
  vd      Channel.validate_duration
  vp      Channel.validate_pulse (real Pulse / real waveforms)
  dmm     DMM.validate_pulse on a real DetuningMap
  pinit   Pulse.__init__ (non-negative amplitude, equal durations)
  finite  finiteness of Ramp/Blackman/Constant samples of short durations
  l1      max sequence duration + "refusal has a cause" on the scheduler step
  seq     Sequence.add / add_dmm_detuning glue (L2)
"""
from __future__ import annotations

import math

import numpy as np

from checks import l1
from symx import core, facade, stubs
from symx.core import AND, IFF, IMPLIES, ITE, NOT, OR, is_sym, smax, smin

PROPERTY = "C01"
STUBS = l1.COMMON_STUBS + [
    "np.round(x, 6) on decimal fixed-point proxies is the integer round-half-even of the 1e-7 count (D-mode); detunings and "
    "detuning limits live on the 1e-7 grid, amplitudes are exact reals",
]
FLOAT_MODE = "amplitudes: R-mode (exact reals; compare-only kernels => all binary64 inputs); detunings: D-mode 1e-7 grid"
BOUNDS = {
    "quick": dict(clock=[1, 2, 3, 4, 8], samples_per_waveform="<=3", l1="as C02 quick", finite_durations=[1, 2, 3, 4, 5, 6]),
    "thorough": dict(clock=[1, 2, 3, 4, 5, 8, 16], samples_per_waveform="<=4", l1="as C02 thorough", finite_durations=list(range(1, 9))),
}
OUTSIDE = ["Interpolated/Kaiser sample values (scipy / Bessel)", "torch tensors",
           "detuning values off the 1e-7 decimal grid", "numerical fall times (stub contract)"]


def setup():
    l1.setup()
    import pulser.register.weight_maps as wm
    import pulser.register.traps as tr
    import pulser.register._coordinates as co

    facade.install(extra_np=(wm, tr, co))


def setup_concrete():
    l1.setup_concrete()


expected_unreachable = l1.expected_unreachable


def RND(x, n):
    if is_sym(x):
        return x.round(n)
    return float(np.round(x, n))


def FINITE(x):
    x = core._np_item(x)
    if is_sym(x):
        return True
    return bool(np.isfinite(x))


def samples_of(wf):
    a = wf.samples.as_array(detach=True) if hasattr(wf.samples, "as_array") else wf.samples
    if isinstance(a, facade.ConstArr):
        return [a.value]
    return list(np.asarray(a, dtype=object).flat) if getattr(a, "dtype", None) == object else [float(v) for v in a]


# --------------------------------------------------------------------------


def h_validate_duration(shape):
    from pulser.channels import Rydberg

    clock = shape["clock"]

    def h(inp):
        mn = inp.int("min_duration", 1, None)
        mx = inp.int("max_duration", 1, None) if shape["maxdef"] else None
        if mx is not None:
            inp.assume(mx >= mn)
        ch = Rydberg.Global(None, None, clock_period=clock, min_duration=mn, max_duration=mx)
        d = inp.int("duration", None, None)
        try:
            r = ch.validate_duration(d)
            ok = True
        except ValueError:
            ok = False
        obs = []
        up = d + ((-d) % clock)
        if ok:
            obs.append(("vd:clock_multiple", r % clock == 0))
            obs.append(("vd:only_lengthened_to_next", AND(r >= d, r < d + clock)))
            obs.append(("vd:ge_min", r >= mn))
            if mx is not None:
                obs.append(("vd:le_max", r <= mx))
            obs.append(("vd:unchanged_if_multiple", IMPLIES(d % clock == 0, r == d)))
        else:
            # a refusal needs a cause: below min, above max, or no clock
            # multiple fits under max
            cause = [d < mn]
            if mx is not None:
                cause += [d > mx, up > mx]
            obs.append(("vd:refusal_has_cause", OR(*cause)))
        return obs

    return h


def mk_wf(inp, kind, name, mode, dur=None, nonneg=False):
    """A real waveform with symbolic defining values. mode 'R' exact real,
    'D7'/'D6' decimal grid."""
    from pulser.waveforms import ConstantWaveform, CustomWaveform, RampWaveform, CompositeWaveform

    def val(n):
        lo = 0 if nonneg else None
        if mode == "R":
            return inp.real(n, lo, None)
        return inp.fix(n, int(mode[1]), lo, None)

    if kind == "const":
        d = dur if dur is not None else inp.int(name + ".dur", 1, None)
        return ConstantWaveform(d, val(name + ".v"))
    if kind == "ramp":
        # D-mode needs 1/(duration-1) to be a short decimal: duration 3
        return RampWaveform(3 if mode != "R" else (dur or 3), val(name + ".start"), val(name + ".stop"))
    if kind == "custom":
        return CustomWaveform([val("%s.s%d" % (name, i)) for i in range(dur or 3)])
    if kind == "composite":
        n = dur or 3
        return CompositeWaveform(ConstantWaveform(1, val(name + ".c")), RampWaveform(n - 1, val(name + ".start"), val(name + ".stop")))
    raise ValueError(kind)


def h_validate_pulse(shape):
    from pulser.channels import Rydberg
    from pulser.pulse import Pulse

    def h(inp):
        mode = "D%d" % shape["grid"]
        max_amp = inp.real("max_amp", 0, None) if shape["max_amp"] else None
        max_det = inp.fix("max_det", shape["grid"], 0, None) if shape["max_det"] else None
        kw = {}
        if shape["minavg"]:
            kw["min_avg_amp"] = inp.real("min_avg_amp", 0, None)
        ch = Rydberg.Global(max_det, max_amp, **kw)
        n = shape.get("n", 3)
        dur = None if (shape["amp"] == "const" and shape["det"] == "const") else (3 if "ramp" in (shape["amp"], shape["det"]) else n)
        if dur is None:
            d = inp.int("dur", 1, None)
            amp = mk_wf(inp, "const", "amp", "R", d, nonneg=True)
            det = mk_wf(inp, "const", "det", mode, d)
        else:
            amp = mk_wf(inp, shape["amp"], "amp", "R", dur, nonneg=True)
            det = mk_wf(inp, shape["det"], "det", mode, dur)
        pulse = Pulse(amp, det, 0.0)
        try:
            ch.validate_pulse(pulse)
            ok = True
        except ValueError:
            ok = False
        a = samples_of(amp)
        dd = samples_of(det)
        avg = sum(a[1:], a[0]) / len(a)
        obs = []
        amp_in = AND(*[x <= max_amp for x in a]) if max_amp is not None else True
        det_in = AND(*[abs(x) <= max_det for x in dd]) if max_det is not None else True
        det_in_slack = AND(*[abs(x) <= max_det + 5e-7 for x in dd]) if max_det is not None else True
        avg_in = OR(avg <= 0, avg >= kw["min_avg_amp"]) if shape["minavg"] else True
        if ok:
            obs.append(("vp:amp_le_max", amp_in))
            obs.append(("vp:det_le_max", det_in_slack))
            obs.append(("vp:min_avg_amp", avg_in))
        else:
            obs.append(("vp:inside_is_accepted", NOT(AND(amp_in, det_in, avg_in))))
        return obs

    return h


def h_dmm(shape):
    from pulser.channels.dmm import DMM
    from pulser.pulse import Pulse
    from pulser.register.weight_maps import DetuningMap

    weights = shape["weights"]
    coords = [(float(i), 0.0) for i in range(len(weights))]

    def h(inp):
        g = shape["grid"]
        bottom = inp.fix("bottom_detuning", g, None, 0) if shape["bottom"] else None
        total = inp.fix("total_bottom_detuning", g, None, 0) if shape["total"] else None
        if bottom is not None and total is not None:
            inp.assume(total <= bottom)
        dmm = DMM(bottom_detuning=bottom, total_bottom_detuning=total)
        dmap = DetuningMap(coords, weights)
        n = shape.get("n", 3)
        if shape["det"] == "const":
            d = inp.int("dur", 1, None)
            det = mk_wf(inp, "const", "det", "D%d" % g, d)
            amp = mk_wf(inp, "const", "amp0", "R", d, nonneg=True)
        else:
            det = mk_wf(inp, shape["det"], "det", "D%d" % g, n)
            from pulser.waveforms import ConstantWaveform

            amp = ConstantWaveform(n, inp.real("amp0.v", 0, None))
        pulse = Pulse(amp, det, 0.0)
        try:
            dmm.validate_pulse(pulse, dmap)
            ok = True
        except ValueError:
            ok = False
        dd = samples_of(det)
        a0 = samples_of(amp)[0]
        mind = smin(dd) if len(dd) > 1 else dd[0]
        wmax, wsum = max(weights), sum(weights)
        sl = 5e-7
        obs = []
        nonpos = AND(*[x <= 0 for x in dd])
        nonpos_sl = AND(*[x <= sl for x in dd])
        b_in = (wmax * mind >= bottom) if bottom is not None else True
        b_in_sl = (wmax * (mind + sl) >= bottom) if bottom is not None else True
        t_in = (wsum * mind >= total) if total is not None else True
        t_in_sl = (wsum * (mind + sl) >= total) if total is not None else True
        if ok:
            obs.append(("dmm:amp_zero", a0 <= 0))
            obs.append(("dmm:never_positive", nonpos_sl))
            obs.append(("dmm:bottom", b_in_sl))
            obs.append(("dmm:total_bottom", t_in_sl))
        else:
            if g == 6:  # on the 1e-6 grid rounding is the identity: acceptance is exact
                obs.append(("dmm:inside_is_accepted", NOT(AND(a0 <= 0, nonpos, b_in, t_in))))
        return obs

    return h


def h_pulse_init(shape):
    from pulser.pulse import Pulse

    def h(inp):
        n = shape["n"]
        amp = mk_wf(inp, shape["amp"], "amp", "R", n)
        det = mk_wf(inp, "const", "det", "R", n + shape["dd"])
        try:
            Pulse(amp, det, 0.0)
            ok = True
        except ValueError:
            ok = False
        a = samples_of(amp)
        good = AND(*[x >= 0 for x in a]) if shape["dd"] == 0 else False
        return [("pinit:accept_iff_nonneg_and_equal_len", IFF(ok, good))]

    return h


def h_finite(shape):
    """An accepted pulse has finite samples (C01 'finite samples')."""
    from pulser.channels import Rydberg
    from pulser.pulse import Pulse
    from pulser.waveforms import BlackmanWaveform, ConstantWaveform, RampWaveform

    def h(inp):
        d = shape["dur"]
        val = (lambda n: inp.real(n, 0, None)) if shape["as"] == "amp" else (lambda n: inp.fix(n, 7, 0, None))
        if shape["cls"] == "ramp":
            wf = RampWaveform(d, val("start"), val("stop"))
        elif shape["cls"] == "blackman":
            wf = BlackmanWaveform(d, val("area"))
        else:
            wf = ConstantWaveform(d, val("v"))
        ch = Rydberg.Global(inp.real("max_det", 0, None), inp.real("max_amp", 0, None))
        if shape["as"] == "amp":
            mk = lambda: Pulse(wf, ConstantWaveform(d, 0.0), 0.0)  # noqa: E731
        else:
            mk = lambda: Pulse(ConstantWaveform(d, 0.0), wf, 0.0)  # noqa: E731
        try:
            p = mk()
            ch.validate_pulse(p)
            ok = True
        except ValueError:
            ok = False
        obs = []
        if ok:
            obs.append(("finite:accepted_pulse_has_finite_samples", AND(*[FINITE(x) for x in samples_of(wf)])))
            obs.append(("finite:n_samples", len(samples_of(wf)) == d))
        return obs

    return h


# --------------------------------------------------------------------------


def kernels(tier):
    quick = tier == "quick"
    ks = []
    for clock in BOUNDS[tier]["clock"]:
        for maxdef in (True, False):
            ks.append(("vd", dict(clock=clock, maxdef=maxdef)))
    wfk = ["const", "ramp", "custom"] + ([] if quick else ["composite"])
    for amp in wfk:
        for det in wfk:
            if (amp == "const") != (det == "const") and quick and amp != "const":
                pass
            for ma in (True, False):
                for md in (True, False):
                    for mavg in (True, False):
                        for grid in (7, 6):
                            if not (ma or md or mavg):
                                continue
                            ks.append(("vp", dict(amp=amp, det=det, max_amp=ma, max_det=md, minavg=mavg, grid=grid,
                                                  n=3 if quick else 4)))
    wsets = [[1.0], [0.5, 1.0], [0.25, 0.5, 0.0], [1.0, 1.0, 1.0]]
    for w in wsets:
        for det in ("const", "ramp", "custom"):
            for b in (True, False):
                for t in (True, False):
                    for grid in (7, 6):
                        ks.append(("dmm", dict(weights=w, det=det, bottom=b, total=t, grid=grid)))
    for amp in ("const", "ramp", "custom"):
        for dd in (0, 1):
            ks.append(("pinit", dict(amp=amp, n=3, dd=dd)))
    for cls in ("ramp", "blackman", "const"):
        for d in BOUNDS[tier]["finite_durations"]:
            for as_ in ("amp", "det"):
                if as_ == "det" and (cls == "blackman" or (cls == "ramp" and d - 1 not in (0, 1, 2))):
                    continue  # detuning role needs decimal-closed arithmetic (D-mode)
                ks.append(("finite", dict(cls=cls, dur=d, **{"as": as_})))
    ks += [("l1", s) for s in l1.step_shapes(tier)]
    ks += [("l1", s) for s in l1.eom_shapes(tier)]
    return ks


def harness(kernel, shape):
    if kernel == "vd":
        return h_validate_duration(shape)
    if kernel == "vp":
        return h_validate_pulse(shape)
    if kernel == "dmm":
        return h_dmm(shape)
    if kernel == "pinit":
        return h_pulse_init(shape)
    if kernel == "finite":
        return h_finite(shape)
    if kernel == "l1":
        return l1.filtered(l1.step_harness(shape), ("c01:",))
    raise ValueError(kernel)


# ---- L2: the Sequence glue (K5/K8) ------------------------------------------

from checks import l2  # noqa: E402

_k0, _h0, _setup0, _setupc0 = kernels, harness, setup, setup_concrete


def setup():
    _setup0()
    l2.setup()


def setup_concrete():
    _setupc0()
    l2.setup_concrete()


def h_seq(shape):
    """Whenever a pulse-adding call on a real Sequence returns, the pulse as
    scheduled is within the channel's limits; a pulse inside every limit is
    accepted and only lengthened to the next clock multiple."""

    def h(inp):
        stubs.bind(inp)
        from pulser.pulse import Pulse
        from pulser.waveforms import ConstantWaveform

        seq = l2.new_seq(shape["device"])
        pre = [["declare", "g", "ryd_glob"], ["declare", "l", "ryd_loc", "q0"]]
        if shape["call"] == "add_dmm":
            pre.append(["config_dmap", {"q0": 1.0, "q1": 0.5, "q2": 0.25}, "dmm_0"])
        if shape["call"] == "add_dmm2":
            # the same DMM configured twice (reusable device) with different maps: limits follow the map of the addressed declaration
            pre.append(["config_dmap", {"q0": 1.0, "q1": 1.0, "q2": 1.0}, "dmm_0"])
            pre.append(["config_dmap", {"q0": 0.125, "q1": 0.0, "q2": 0.125}, "dmm_0"])
        if shape.get("prior"):
            pre.append(["add", "g", ["cp", 52, 1.0, 0.0, 0.5]])
        l2.run_prefix(inp, seq, pre)
        # duration = clock multiple + concrete remainder (keeps d % clock linear)
        if shape["call"] in ("add_dmm", "add_dmm2"):
            d = 52 + shape.get("rem", 0)  # concrete: a symbolic DMM duration did not exhaust (>1500 paths)
        else:
            d = inp.mult("dur", 4, 0, 20000) + shape.get("rem", 0)
            inp.assume(d >= 1)
        amp = inp.real("amp", 0, 100)
        det = inp.fix("det", 7, -2000, 400)
        call = shape["call"]
        name = {"add_g": "g", "add_l": "l", "add_dmm": "dmm_0", "add_dmm2": "dmm_0_1", "eom": "g", "eom_det": "g", "eom_drift": "g"}[call]
        ch = seq.declared_channels[name]
        try:
            if call in ("add_g", "add_l"):
                seq.add(Pulse.ConstantPulse(d, amp, det, 0.0), name, shape.get("protocol", "min-delay"))
            elif call in ("add_dmm", "add_dmm2"):
                seq.add_dmm_detuning(ConstantWaveform(d, det), name)
            elif call == "eom_det":
                # the detuning the channel idles at inside the block is CHOSEN by the library (calculate_detuning_off)
                seq.enable_eom_mode("g", amp, inp.real("det_on", -260, 260))
                seq.add_eom_pulse("g", d, 0.0)
                seq.delay(16, "g")
            elif call == "eom_drift":
                # an EOM pulse whose phase is corrected for the drift accumulated so far: a pulse like any other for the limits
                seq.enable_eom_mode("g", amp, 0.0, -1.0)
                seq.add_eom_pulse("g", d, 0.0, correct_phase_drift=True)
            else:
                seq.enable_eom_mode("g", amp, 0.0, 0.0)
                seq.add_eom_pulse("g", d, 0.0)
            ok = True
        except l2.REFUSALS:
            ok = False
        clock = ch.clock_period
        up = d + ((-d) % clock)
        dur_in = AND(d >= ch.min_duration, d <= ch.max_duration)
        if call in ("add_dmm", "add_dmm2"):
            w = [1.0, 0.5, 0.25] if call == "add_dmm" else [0.125, 0.0, 0.125]
            val_in = AND(det <= 0, max(w) * det >= ch.bottom_detuning, sum(w) * det >= ch.total_bottom_detuning)
            val_in_sl = AND(det <= 5e-7, max(w) * (det - 5e-7) >= ch.bottom_detuning - 1e-6, sum(w) * (det - 5e-7) >= ch.total_bottom_detuning - 1e-5)
        elif call in ("eom", "eom_drift"):
            val_in = amp <= ch.max_amp
            val_in_sl = val_in
        else:
            val_in = AND(amp <= ch.max_amp, abs(det) <= ch.max_abs_detuning)
            val_in_sl = AND(amp <= ch.max_amp, abs(det) <= ch.max_abs_detuning + 5e-7)
        obs = []
        if ok and call == "eom_det":
            # every pulse on the timeline (EOM pulses, and the detuned delays / buffers the library inserts) is within the limits
            terms = []
            for sl in seq._schedule[name].slots:
                if l1.is_pulse(sl):
                    dv = facade._unwrap0(sl.type.detuning._value)
                    av = facade._unwrap0(sl.type.amplitude._value)
                    terms.append(AND(abs(dv) <= ch.max_abs_detuning + 5e-7, av <= ch.max_amp + 1e-9))
            return [("seq:every_scheduled_eom_slot_within_limits", AND(*terms))]
        if call == "eom_det":
            return []
        if ok:
            sl = seq._schedule[name].slots[-1]
            p = sl.type
            L = sl.tf - sl.ti
            obs.append(("seq:scheduled_duration", AND(L == up, L % clock == 0, L >= ch.min_duration)))
            obs.append(("seq:scheduled_within_value_limits", val_in_sl))
            obs.append(("seq:scheduled_values_unchanged", AND(
                facade._unwrap0(p.detuning._value) == (det if call not in ("eom", "eom_drift") else 0.0),
                facade._unwrap0(p.amplitude._value) == (amp if call not in ("add_dmm", "add_dmm2") else 0.0))))
            obs.append(("seq:requested_duration_within_limits", dur_in))
            if seq.device.max_sequence_duration is not None:
                obs.append(("seq:within_max_sequence_duration", AND(*[cs.slots[-1].tf <= seq.device.max_sequence_duration
                                                                     for cs in seq._schedule.values()])))
        elif seq.device.max_sequence_duration is not None:
            pass  # (the refusal may come from the sequence duration: no claim on this side)
        else:
            # a refusal needs a cause among the documented limits (max_sequence_duration is None on this device)
            obs.append(("seq:inside_is_accepted", NOT(AND(dur_in, val_in, up <= ch.max_duration if False else True))))
        return obs

    return h


def h_seqwf(shape):
    """Shaped waveforms through Sequence.add: the pulse as scheduled (lengthened to the clock) is still within the
    limits and is the SAME waveform (class and defining parameters), only longer."""

    def h(inp):
        stubs.bind(inp)
        from pulser.pulse import Pulse
        from pulser.waveforms import BlackmanWaveform, ConstantWaveform, KaiserWaveform, RampWaveform

        if shape.get("minavg"):
            # a channel with a minimum average amplitude (symbolic) and a coarse clock
            import pulser
            from pulser.channels import Rydberg
            from pulser.devices import VirtualDevice

            dev = VirtualDevice(name="minavg", dimensions=2, rydberg_level=60, channel_ids=("ryd_glob",), channel_objects=(
                Rydberg.Global(250.0, 100.0, clock_period=shape["minavg"], min_duration=4, max_duration=10000,
                               min_avg_amp=inp.real("min_avg_amp", 0, 50)),))
            seq = pulser.Sequence(l2.mk_register("reg3"), dev)
        else:
            seq = l2.new_seq("virt")
        l2.run_prefix(inp, seq, [["declare", "g", "ryd_glob"]])
        ch = seq.declared_channels["g"]
        d = shape["d"]
        kind = shape["wf"]
        if kind == "kaiser":
            area = inp.real("area", 0, 2)
            wf = KaiserWaveform(d, area, shape["beta"])
            same = lambda w: AND(isinstance(w, KaiserWaveform), facade._unwrap0(w._area) == area, float(w._beta) == float(shape["beta"]))  # noqa: E731
        elif kind == "blackman":
            area = inp.real("area", 0, 2)
            wf = BlackmanWaveform(d, area)
            same = lambda w: AND(isinstance(w, BlackmanWaveform), facade._unwrap0(w._area) == area)  # noqa: E731
        else:
            a0, a1 = inp.real("a0", 0, 100), inp.real("a1", 0, 100)
            wf = RampWaveform(d, a0, a1)
            same = lambda w: AND(isinstance(w, RampWaveform), facade._unwrap0(w._start) == a0, facade._unwrap0(w._stop) == a1)  # noqa: E731
        det = inp.fix("det", 7, -400, 400)
        try:
            pulse = Pulse(wf, ConstantWaveform(d, det), 0.0)
        except l2.REFUSALS:
            raise core.Infeasible()
        samples_in = [facade._unwrap0(x) for x in wf.samples.as_array(detach=True).flat]
        try:
            seq.add(pulse, "g")
            ok = True
        except l2.REFUSALS:
            ok = False
        clock = ch.clock_period
        up = d + ((-d) % clock)
        val_in = AND(*[x <= ch.max_amp for x in samples_in], abs(det) <= ch.max_abs_detuning)
        if shape.get("minavg"):
            tin = 0
            for x in samples_in:
                tin = tin + x
            val_in = AND(val_in, OR(tin == 0, tin >= ch.min_avg_amp * len(samples_in)))
        obs = []
        if ok:
            sl = seq._schedule["g"].slots[-1]
            p = sl.type
            obs.append(("seqwf:scheduled_duration", sl.tf - sl.ti == up))
            out = [facade._unwrap0(x) for x in p.amplitude.samples.as_array(detach=True).flat]
            obs.append(("seqwf:scheduled_sample_count", len(out) == up))
            obs.append(("seqwf:scheduled_within_value_limits", AND(*[x <= ch.max_amp + 1e-9 for x in out], *[x >= -1e-9 for x in out],
                                                                    abs(det) <= ch.max_abs_detuning + 5e-7)))
            obs.append(("seqwf:scheduled_only_lengthened", AND(same(p.amplitude), facade._unwrap0(p.detuning._value) == det)))
            if shape.get("minavg"):
                tot = 0
                for x in out:
                    tot = tot + x
                # "nor below the minimum average when non-zero": the average of the pulse AS SCHEDULED
                obs.append(("seqwf:scheduled_average_not_below_min_avg_amp", OR(tot <= 1e-9, tot >= ch.min_avg_amp * len(out) - 1e-9)))
        else:
            obs.append(("seqwf:inside_is_accepted", NOT(val_in)))
        return obs

    return h


def h_slm(shape):
    """config_slm_mask in Ising mode: the first global pulse makes the sequence add a pulse to the mask's DMM; that pulse
    must respect the DMM limits (per-atom and total bottom detuning for the masked atoms) and the clock."""

    def h(inp):
        stubs.bind(inp)
        from pulser.pulse import Pulse

        seq = l2.new_seq(shape.get("device", "virt_tightdmm"))
        masked = shape["masked"]
        if shape["order"] == "mask_first":
            seq.config_slm_mask(masked)
            seq.declare_channel("g", "ryd_glob")
        else:
            seq.declare_channel("g", "ryd_glob")
            seq.config_slm_mask(masked)
        amp = inp.real("amp", 0.125, 15)
        d = inp.mult("dur", 4, 8, 400) + shape.get("rem", 0)
        dmm0 = seq.device.dmm_channels["dmm_0"]
        nmask = len(masked)
        # region of finding F16: the mask detuning is clamped to total_bottom_detuning / (number of masked atoms)
        lim = smax(-10 * amp, dmm0.bottom_detuning)
        inp.publish("slm_detuning_clamped_to_total_bottom", nmask * lim < dmm0.total_bottom_detuning + nmask * 1e-6)
        try:
            seq.add(Pulse.ConstantPulse(d, amp, 0.0, 0.0), "g")
        except l2.REFUSALS:
            return [("slm:masked_add_is_accepted", False)]
        dmm = seq.declared_channels["dmm_0"]
        cs = seq._schedule["dmm_0"]
        pulses = [sl for sl in cs.slots if l1.is_pulse(sl)]
        obs = [("slm:one_dmm_pulse", len(pulses) == 1)]
        if len(pulses) != 1:
            return obs
        sl = pulses[0]
        det = facade._unwrap0(sl.type.detuning._value)
        n = len(masked)
        obs.append(("slm:dmm_detuning_not_positive", det <= 0))
        obs.append(("slm:dmm_per_atom_bottom", det >= dmm.bottom_detuning - 1e-6))
        obs.append(("slm:dmm_total_bottom", n * det >= dmm.total_bottom_detuning - 1e-5))
        obs.append(("slm:dmm_detuning_is_documented_value", OR(det == -10 * amp, det == dmm.bottom_detuning, abs(det - dmm.total_bottom_detuning / n) <= 1e-9)))
        L = sl.tf - sl.ti
        obs.append(("slm:dmm_pulse_clock", AND(L % dmm.clock_period == 0, L >= dmm.min_duration)))
        g_end = seq._schedule["g"].slots[-1].tf
        obs.append(("slm:dmm_pulse_covers_first_global_pulse", AND(sl.ti == 0, sl.tf >= g_end)))
        return obs

    return h


def kernels(tier):
    ks = _k0(tier)
    for order in ("mask_first", "channel_first"):
        for masked in (["q0"], ["q0", "q1"], ["q0", "q1", "q2"]):
            for rem in (0, 2):
                ks.append(("slm", dict(order=order, masked=masked, rem=rem)))
    for call in ("add_g", "add_l", "add_dmm", "eom"):
        for prior in (False, True):
            for rem in (0, 1, 3):
                ks.append(("seq", dict(device="virt", call=call, prior=prior, rem=rem)))
    ks.append(("seq", dict(device="virt_reuse", call="add_dmm2", prior=False, rem=0)))
    ks.append(("seq", dict(device="virt_reuse", call="add_dmm2", prior=True, rem=1)))
    ks.append(("seq", dict(device="virt", call="add_l", prior=True, protocol="no-delay")))
    ks.append(("seq", dict(device="virt", call="add_g", prior=True, protocol="wait-for-all")))
    for prior in (False, True):
        ks.append(("seq", dict(device="virt", call="eom_det", prior=prior, rem=0)))
        ks.append(("seq", dict(device="virt", call="eom_drift", prior=prior, rem=0)))
        # ... and on a device that limits the duration of the whole sequence
        for call in ("add_g", "add_l", "eom", "eom_drift"):
            ks.append(("seq", dict(device="virt_maxseq", call=call, prior=prior, rem=0)))
    # shaped waveforms whose duration is not a clock multiple (clock 4): lengthened by Sequence.add
    for d in ((10, 13) if tier == "quick" else (9, 10, 13, 18, 23)):
        ks.append(("seqwf", dict(wf="kaiser", d=d, beta=2.0)))
        ks.append(("seqwf", dict(wf="kaiser", d=d, beta=14.0)))
        ks.append(("seqwf", dict(wf="blackman", d=d)))
        ks.append(("seqwf", dict(wf="ramp", d=d)))
    for wfk in ("blackman", "ramp"):
        ks.append(("seqwf", dict(wf=wfk, d=17, minavg=16)))
        ks.append(("seqwf", dict(wf=wfk, d=16, minavg=16)))
    return ks


def harness(kernel, shape):
    if kernel == "seq":
        return h_seq(shape)
    if kernel == "slm":
        return h_slm(shape)
    if kernel == "seqwf":
        return h_seqwf(shape)
    return _h0(kernel, shape)
