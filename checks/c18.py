"""C18 - switching device or register preserves the program.

A concrete program is built on device A; device B is A with a subset of
channel parameters replaced by solver variables.  switch_device(B,
strict=True) must either raise or return a sequence whose timeline is
identical to the original's for ALL values of B's parameters;
switch_device(B, strict=False) must return a sequence within every limit of
B; switch_register with the same ids keeps the timeline.
"""
from __future__ import annotations

import dataclasses

import numpy as np

from checks import l2
from symx import core, facade, stubs
from symx.core import AND, IFF, IMPLIES, ITE, NOT, OR, is_sym

PROPERTY = "C18"
TWO_PI = 2 * np.pi
STUBS = [
    "device B = device A with some channel parameters replaced by solver variables (dataclasses.replace on the real channel objects)",
    "Waveform.modulation_buffers stubbed: a nondeterministic function of (waveform data, modulation bandwidth, rise time) within [0, rise_time], "
    "identical on both devices when the bandwidth is the same",
    "programs have concrete arguments; modulation bandwidths and clock periods of B vary over a small concrete set",
]
FLOAT_MODE = "integers for durations/times; reals for amplitude/detuning limits"
BOUNDS = {"quick": dict(programs=3, symbolic_params_at_once="1-2"), "thorough": dict(programs=4, symbolic_params_at_once="1-3")}
OUTSIDE = ["symbolic modulation bandwidth (rise time formula)", "XY mode", "parametrized sequences"]


def setup():
    l2.setup()
    import pulser.sequence.helpers._switch_device as sd

    sd.np = facade.FACADE


def setup_concrete():
    l2.setup_concrete()


S = lambda n, k="real", **kw: dict(s=n, k=k, **kw)  # noqa: E731

PROGRAMS = {
    "timing": [["declare", "g", "ryd_glob"], ["declare", "l", "ryd_loc", "q0"], ["declare", "b", "ram_loc", "q1"],
               ["add", "g", ["cp", 100, 1.0, 0.5, 0.0]], ["add", "g", ["cp", 52, 2.0, 0.0, 1.0]],
               ["add", "l", ["cp", 40, 1.0, 0.0, 0.0], "min-delay"], ["target", "l", "q1"], ["add", "l", ["cp", 40, 1.0, 0.0, 2.0]],
               ["delay", "b", 6], ["add", "b", ["cp", 30, 1.0, 0.0, 0.5], "wait-for-all"], ["align", ["g", "l"]],
               ["add", "g", ["cp", 20, 1.0, 0.0, 1.0], "no-delay"]],
    "eom": [["declare", "g", "ryd_glob"], ["add", "g", ["cp", 100, 1.0, 0.0, 0.0]],
            ["enable_eom", "g", 2.0, 0.0, -1.0], ["add_eom", "g", 40, 0.0], ["delay", "g", 20], ["add_eom", "g", 40, 1.0],
            ["disable_eom", "g"], ["add", "g", ["cp", 52, 1.0, 0.0, 0.5]]],
    # EOM disabled as the very last thing on the channel (differences confined to the trailing buffer)
    "eom_long_idle": [["declare", "g", "ryd_glob"], ["add", "g", ["cp", 100, 1.0, 0.0, 0.0]], ["enable_eom", "g", 1.0, 0.0, 0.0], ["add_eom", "g", 100, 0.0],
                      ["delay", "g", 400], ["disable_eom", "g"], ["add", "g", ["cp", 100, 1.0, 0.0, 0.0]]],
    "eom_tail": [["declare", "g", "ryd_glob"], ["add", "g", ["cp", 100, 1.0, 0.0, 0.0]],
                 ["enable_eom", "g", 2.0, 0.0, -1.0], ["add_eom", "g", 40, 0.0], ["disable_eom", "g"]],
    # the same channel declared twice on a reusable device, only the second one uses the EOM
    "eom_twice": [["declare", "probe", "ryd_glob"], ["declare", "drive", "ryd_glob"], ["add", "probe", ["cp", 52, 1.0, 0.0, 0.0]],
                  # (amplitude above the limiting-beam threshold: the off-detuning then depends on the EOM configuration)
                  ["enable_eom", "drive", 8.0, 0.0, -1.0], ["add_eom", "drive", 40, 0.0], ["delay", "drive", 20], ["add_eom", "drive", 16, 1.0]],
    "retarget": [["declare", "l", "ryd_loc", "q0"], ["add", "l", ["cp", 16, 1.0, 0.0, 0.0]], ["target", "l", "q1"],
                 ["add", "l", ["cp", 16, 1.0, 0.0, 0.0]], ["target", "l", ["q0", "q2"]], ["add", "l", ["cp", 16, 1.0, 0.0, 1.0]]],
    # the local channel starts on two atoms (its initial target) and is retargeted to two others
    "multi_init": [["declare", "l", "ryd_loc", ["q0", "q1"]], ["add", "l", ["cp", 40, 1.0, 0.0, 0.0]], ["target", "l", "q2"],
                   ["add", "l", ["cp", 40, 1.0, 0.0, 0.0]]],
    # an SLM mask in Ising mode: the sequence itself computes the DMM pulse from the device's DMM limits
    "slm": [["declare", "g", "ryd_glob"], ["config_slm", ["q0", "q1"]], ["add", "g", ["cp", 52, 8.0, 0.0, 0.0]],
            ["add", "g", ["cp", 40, 1.0, 0.0, 1.0]]],
    # EOM mode with a set-point close to the detuning limit: the off-detuning is chosen from the device's EOM configuration
    "eom_near_limit": [["declare", "g", "ryd_glob"], ["enable_eom", "g", 10.0, S("det_on", lo=-251, hi=-200)], ["add_eom", "g", 40, 0.0], ["delay", "g", 20],
                       ["add_eom", "g", 40, 1.0]],
    # XY mode with an SLM mask (no DMM involved)
    "xy_slm": [["declare", "mw", "mw_global"], ["config_slm", ["q0"]], ["add", "mw", ["cp", 52, 1.0, 0.0, 0.0]],
               ["add", "mw", ["cp", 40, 1.0, 0.0, 1.0]]],
    # the program ends with a retarget (nothing after it re-checks the sequence length)
    "retarget_tail": [["declare", "l", "ryd_loc", "q0"], ["add", "l", ["cp", 400, 1.0, 0.0, 0.0]], ["target", "l", "q1"]],
    # the phase-drift correction of disable_eom_mode moves the reference that a second channel of the basis then uses
    "eom_drift": [["declare", "g", "ryd_glob"], ["declare", "l", "ryd_loc", "q0"],
                  ["enable_eom", "g", 2.0, 1.5, -1.0, {"correct_phase_drift": True}], ["add_eom", "g", 40, 0.0, None, {"correct_phase_drift": True}],
                  ["delay", "g", 52], ["disable_eom", "g", {"correct_phase_drift": True}],
                  ["add", "l", ["cp", 52, 1.0, 0.0, 0.25]]],
    "dmm": [["declare", "g", "ryd_glob"], ["config_dmap", {"q0": 1.0, "q1": 0.5, "q2": 0.0}, "dmm_0"],
            ["add", "g", ["cp", 100, 1.0, 0.0, 0.0]], ["add_dmm", "dmm_0", ["const", 52, -3.0]], ["delay", "dmm_0", 10],
            ["add_dmm", "dmm_0", ["ramp", 40, -2.0, -1.0], "wait-for-all"]],
}

INT_PARAMS = ("min_duration", "max_duration", "custom_phase_jump_time", "min_retarget_interval", "fixed_retarget_t", "max_targets")
REAL_PARAMS = ("max_amp", "max_abs_detuning", "min_avg_amp")


def mk_device_b(inp, A, shape):
    """A with some parameters of the listed channels replaced."""
    from pulser.devices import VirtualDevice

    chans = dict(A.channels)
    dmms = dict(A.dmm_channels)
    sym = {}
    for (cid, param) in shape["sym"]:
        pool = chans if cid in chans else dmms
        ch = pool[cid]
        if param in INT_PARAMS:
            v = inp.int("%s.%s" % (cid, param), 0, None)
        elif param in REAL_PARAMS:
            v = inp.real("%s.%s" % (cid, param), 0, None)
        elif param == "eom.custom_buffer_time":
            v = inp.int("%s.eom_buffer" % cid, 1, None)
            pool[cid] = dataclasses.replace(ch, eom_config=dataclasses.replace(ch.eom_config, custom_buffer_time=v))
            sym[(cid, param)] = v
            continue
        else:
            raise ValueError(param)
        sym[(cid, param)] = v
        pool[cid] = dataclasses.replace(ch, **{param: v})
    for (cid, param, val) in shape.get("concrete", []):
        pool = chans if cid in chans else dmms
        if param == "eom.controlled_beams":
            from pulser.channels.eom import RydbergBeam

            val = {"both": (RydbergBeam.BLUE, RydbergBeam.RED), "red": (RydbergBeam.RED,), "blue": (RydbergBeam.BLUE,)}[val]
        if param.startswith("eom."):
            pool[cid] = dataclasses.replace(pool[cid], eom_config=dataclasses.replace(pool[cid].eom_config, **{param[4:]: val}))
        else:
            pool[cid] = dataclasses.replace(pool[cid], **{param: val})
    order = list(chans)
    if shape.get("reorder"):
        order = order[::-1]
    B = VirtualDevice(
        name="virtB", dimensions=A.dimensions, rydberg_level=A.rydberg_level, max_atom_num=A.max_atom_num,
        max_radial_distance=A.max_radial_distance, min_atom_distance=A.min_atom_distance, supports_slm_mask=A.supports_slm_mask,
        reusable_channels=shape.get("reusable", False),
        max_sequence_duration=(inp.int("B.max_sequence_duration", 1, None) if shape.get("maxseq") else None),
        channel_objects=tuple(chans[c] for c in order), channel_ids=tuple(("B_" + c if shape.get("rename") else c) for c in order),
        dmm_objects=tuple(dmms.values()), **({"interaction_coeff_xy": A.interaction_coeff_xy} if A.interaction_coeff_xy is not None else {}))
    return B, sym


def merged_idle(tl):
    """Timeline with runs of adjacent delay slots (same targets) merged into one: where one idle period is cut into several delay
    slots is not observable (disable_eom_mode followed by a pulse waits `buffer` then `rest` on one device, `fall` then `rest'` on
    the other, the same total)."""
    out = dict(tl)
    out["schedule"] = {}
    for name, cs in tl["schedule"].items():
        slots = []
        for sl in cs["slots"]:
            prev = slots[-1] if slots else None
            if (prev is not None and sl[0] == ("delay",) and prev[0] == ("delay",) and sl[3] == prev[3]
                    and not is_sym(sl[1]) and not is_sym(prev[2]) and prev[2] == sl[1]):
                slots[-1] = (slots[-1][0], slots[-1][1], sl[2], sl[3])
            else:
                slots.append(tuple(sl))
        out["schedule"][name] = dict(cs, slots=slots)
    return out


def h_switch(shape):
    def h(inp):
        stubs.bind(inp, fixed=shape["program"].startswith("eom"))
        from pulser.pulse import Pulse

        seq = l2.new_seq(shape.get("device", "virt"))
        A = seq.device
        prog = PROGRAMS[shape["program"]]
        if shape.get("param") == "late":
            # ... or only after the whole (concrete) program: the timeline so far is known, what follows is deferred
            l2.run_prefix(inp, seq, prog)
            v = seq.declare_variable("v", dtype=int)
            seq.delay(v, list(seq.declared_channels)[0])
        elif shape.get("param"):
            # the sequence becomes parametrized right after the channel declarations: everything else is deferred
            ndecl = sum(1 for op in prog if op[0] == "declare")
            l2.run_prefix(inp, seq, prog[:ndecl])
            v = seq.declare_variable("v", dtype=int)
            seq.delay(v, list(seq.declared_channels)[0])
            l2.run_prefix(inp, seq, prog[ndecl:])
        else:
            l2.run_prefix(inp, seq, prog)
        try:
            B, sym = mk_device_b(inp, A, shape)
        except (ValueError, TypeError, NotImplementedError):
            raise core.Infeasible()
        # region of finding F5: B really differs from A in one of the symbolic parameters
        diffs = []
        for (cid, param), v in sym.items():
            a_ch = (dict(A.channels) | dict(A.dmm_channels))[cid]
            a_val = a_ch.phase_jump_time if param == "custom_phase_jump_time" else (
                a_ch.eom_config.custom_buffer_time if param == "eom.custom_buffer_time" else getattr(a_ch, param))
            diffs.append(NOT(v == a_val) if a_val is not None else True)
        inp.publish("b_differs_from_a", OR(*diffs) if diffs else False)
        before = l2.snapshot(seq)
        strict = shape["strict"]
        try:
            new = seq.switch_device(B, strict=strict)
            ok = True
        except (ValueError, TypeError, RuntimeError):
            ok = False
        obs = [("switch:original_untouched", l2.snap_equal(before, l2.snapshot(seq)))]
        if not ok:
            return obs
        if strict and shape.get("param"):
            b1, b2 = seq.build(v=16), new.build(v=16)
            obs.append(("strict:identical_timeline", l2.snap_equal(merged_idle(l2.timeline(b1)), merged_idle(l2.timeline(b2)))))
        elif strict:
            obs.append(("strict:identical_timeline", l2.snap_equal(merged_idle(l2.timeline(seq)), merged_idle(l2.timeline(new)))))
        else:
            # every limit of B holds for the new sequence
            terms = []
            for name, cs in new._schedule.items():
                ch = cs.channel_obj
                for sl in cs.slots:
                    d = sl.tf - sl.ti
                    if isinstance(sl.type, Pulse):
                        a = facade._unwrap0(sl.type.amplitude._value) if hasattr(sl.type.amplitude, "_value") else None
                        dv = facade._unwrap0(sl.type.detuning._value) if hasattr(sl.type.detuning, "_value") else None
                        if ch.max_amp is not None and a is not None:
                            terms.append(a <= ch.max_amp)
                        if ch.max_abs_detuning is not None and dv is not None:
                            terms.append(abs(dv) <= ch.max_abs_detuning + 5e-7)
                        if a is not None:
                            terms.append(OR(a <= 0, a >= ch.min_avg_amp))
                        terms.append(AND(d >= ch.min_duration, d % ch.clock_period == 0))
                        if ch.max_duration is not None:
                            terms.append(d <= ch.max_duration)
                    elif sl.type == "delay":
                        terms.append(AND(d >= ch.min_duration, d % ch.clock_period == 0))
                    if ch.addressing == "Local" and ch.max_targets is not None:
                        terms.append(len(sl.targets) <= ch.max_targets)
                    terms.append(sl.tf % ch.clock_period == 0)
            obs.append(("nonstrict:within_limits_of_new_device", AND(*terms)))
            obs.append(("nonstrict:same_calls", len(new._calls) == len(seq._calls)))
        if B.max_sequence_duration is not None:
            obs.append(("switch:within_max_sequence_duration", AND(*[cs.slots[-1].tf <= B.max_sequence_duration for cs in new._schedule.values()])))
        if not shape.get("param"):
            # whatever the mode: no slot of the returned sequence addresses more atoms than its (new) channel allows
            tt = []
            for name, cs in new._schedule.items():
                ch = cs.channel_obj
                if ch.addressing == "Local" and ch.max_targets is not None:
                    tt += [len(sl.targets) <= ch.max_targets for sl in cs.slots]
            obs.append(("switch:targets_within_max_targets", AND(*tt) if tt else True))
        return obs

    return h


def h_register(shape):
    def h(inp):
        stubs.bind(inp)
        from pulser import Register

        seq = l2.new_seq("virt")
        l2.run_prefix(inp, seq, PROGRAMS[shape["program"]])
        # same ids, other (symbolic) positions that still fit the device
        coords = {"q0": (0.0, 0.0), "q1": (6.0, 0.0), "q2": (0.0, shape.get("y2", 9.0))}
        new = seq.switch_register(Register(coords))
        return [("register:identical_timeline", l2.snap_equal(l2.timeline(seq), l2.timeline(new))),
                ("register:all_calls_replayed", len(new._calls) == len(seq._calls))]

    return h


def kernels(tier):
    quick = tier == "quick"
    ks = []
    chan_of = {"timing": ["ryd_glob", "ryd_loc", "ram_loc"], "eom": ["ryd_glob"], "retarget": ["ryd_loc"], "dmm": ["ryd_glob", "dmm_0"]}
    progs = ["timing", "eom", "retarget"] + ([] if quick else ["dmm"])
    for prog in progs:
        for cid in chan_of[prog]:
            local = cid.endswith("_loc")
            params = ["min_duration", "custom_phase_jump_time", "max_amp", "max_abs_detuning", "max_duration"]
            if local:
                params += ["min_retarget_interval", "fixed_retarget_t"]
            if cid == "dmm_0":
                params = ["min_duration", "max_duration", "custom_phase_jump_time"]
            if prog == "eom":
                # the strict EOM check samples the channel: the timeline must stay concrete there
                params = ["max_amp", "max_abs_detuning", "max_duration"]
            for p in params:
                for strict in (True, False):
                    ks.append(("switch", dict(program=prog, sym=[[cid, p]], strict=strict)))
            if local:
                ks.append(("switch", dict(program=prog, sym=[[cid, "min_retarget_interval"], [cid, "fixed_retarget_t"]], strict=True)))
        # concrete variations: clock, bandwidth, ids/order, reusability
        c0 = chan_of[prog][0]
        for conc in ([[c0, "clock_period", 2]], [[c0, "clock_period", 8]], [[c0, "mod_bandwidth", 10.0]]):
            if c0 == "dmm_0":
                continue
            ks.append(("switch", dict(program=prog, sym=[], concrete=conc, strict=True)))
        ks.append(("switch", dict(program=prog, sym=[], rename=True, reorder=True, reusable=True, strict=True)))
        ks.append(("switch", dict(program=prog, sym=[[c0, "max_amp"]], rename=True, reorder=True, strict=False)))
        if prog == "eom":
            for conc in ([["ryd_glob", "eom.custom_buffer_time", 120]], [["ryd_glob", "min_duration", 16]],
                         [["ryd_glob", "custom_phase_jump_time", 100]], [["ryd_glob", "eom.mod_bandwidth", 30.0]], [["ryd_glob", "eom.max_limiting_amp", 5 * TWO_PI]],
                         [["ryd_glob", "eom.intermediate_detuning", 500 * TWO_PI]]):
                ks.append(("switch", dict(program=prog, sym=[], concrete=conc, strict=True)))
        ks.append(("register", dict(program=prog)))
    for strict in (True, False):
        ks.append(("switch", dict(program="multi_init", sym=[["ryd_loc", "max_targets"]], strict=strict)))
    for conc in ([["dmm_0", "bottom_detuning", -5.0]], [["ryd_glob", "max_amp", 60.0]]):
        ks.append(("switch", dict(program="slm", sym=[], concrete=conc, strict=True)))
    ks.append(("switch", dict(program="slm", sym=[["ryd_glob", "max_amp"]], strict=False)))
    # device A without modulation, device B with: strict has to notice (None is a value like any other)
    for prog in ("timing", "retarget"):
        c0 = chan_of[prog][0]
        ks.append(("switch", dict(program=prog, device="virt_nomod", sym=[], concrete=[[c0, "mod_bandwidth", 10.0]], strict=True)))
    for conc in ([["ryd_glob", "eom.intermediate_detuning", 1000 * TWO_PI]], [["ryd_glob", "eom.intermediate_detuning", 300 * TWO_PI]]):
        ks.append(("switch", dict(program="eom_near_limit", sym=[], concrete=conc, strict=False)))
    for strict in (True, False):
        ks.append(("switch", dict(program="xy_slm", device="mock", sym=[["mw_global", "max_amp"]], strict=strict)))
    # DMM channels are compared like every other channel under strict
    for conc in ([["dmm_0", "clock_period", 8]], [["dmm_0", "mod_bandwidth", 10.0]], [["dmm_0", "min_duration", 16]]):
        ks.append(("switch", dict(program="dmm", sym=[], concrete=conc, strict=True)))
    for strict in (True, False):
        for p in ("fixed_retarget_t", "min_retarget_interval"):
            ks.append(("switch", dict(program="retarget_tail", sym=[["ryd_loc", p]], maxseq=True, strict=strict)))
        ks.append(("switch", dict(program="timing", sym=[["ryd_glob", "min_duration"]], maxseq=True, strict=strict)))
    ks.append(("switch", dict(program="eom_drift", sym=[], concrete=[["ryd_loc", "min_retarget_interval", 100]], strict=True)))
    ks.append(("switch", dict(program="eom_drift", sym=[["ryd_loc", "max_amp"]], strict=True)))
    ks.append(("register", dict(program="eom_drift")))
    for conc in ([["ryd_glob", "eom.custom_buffer_time", 120]], [["ryd_glob", "eom.custom_buffer_time", 48]], [["ryd_glob", "eom.mod_bandwidth", 30.0]]):
        ks.append(("switch", dict(program="eom_tail", sym=[], concrete=conc, strict=True)))
    for param in (False, True):
        for conc in ([["ryd_glob", "eom.intermediate_detuning", 1050 * TWO_PI]], [["ryd_glob", "eom.max_limiting_amp", 5 * TWO_PI]],
                     [["ryd_glob", "eom.custom_buffer_time", 120]]):
            ks.append(("switch", dict(program="eom_twice", device="virt_reuse", sym=[], concrete=conc, reusable=True, strict=True, param=param)))
    # an EOM block that ended after a long idle time (no fall time left to wait for): a custom buffer equal to the default one still
    # changes what disable_eom_mode appends; concrete, parametrized from the start, parametrized after the block
    for param in (False, True, "late"):
        for prog in ("eom_long_idle", "eom_tail", "eom"):
            for conc in ([["ryd_glob", "eom.custom_buffer_time", 48]], [["ryd_glob", "eom.custom_buffer_time", 120]],
                         [["ryd_glob", "eom.controlled_beams", "both"]], [["ryd_glob", "eom.controlled_beams", "red"]]):
                ks.append(("switch", dict(program=prog, sym=[], concrete=conc, strict=True, param=param)))
    return ks


def harness(kernel, shape):
    return h_switch(shape) if kernel == "switch" else h_register(shape)
