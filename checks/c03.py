"""C03 via the L1 inductive scheduler step (see checks/l1.py, DESIGN §6)."""
from checks import l1

PROPERTY = "C03"
PREFIXES = ("c03:", "c01:refusal")
setup = l1.setup
setup_concrete = l1.setup_concrete
expected_unreachable = l1.expected_unreachable
STUBS = l1.COMMON_STUBS
FLOAT_MODE = "integers only (LIA); phases are concrete"


def kernels(tier):
    ks = [("step", s) for s in l1.step_shapes(tier)]
    ks += [("two", s) for s in l1.two_channel_shapes(tier)]
    ks += [("eom", s) for s in l1.eom_shapes(tier)]
    return ks


def harness(kernel, shape):
    return l1.filtered(l1.step_harness(shape), PREFIXES)


# ---- L2 kernels: estimate_added_delay == inserted delay, align -------------

from checks import l2  # noqa: E402
from symx import core, stubs  # noqa: E402
from symx.core import AND, smax  # noqa: E402

_l1_setup, _l1_setup_concrete = setup, setup_concrete


def setup():
    _l1_setup()
    l2.setup()


def setup_concrete():
    _l1_setup_concrete()
    l2.setup_concrete()


STUBS = STUBS + ["estimate/align kernels: real Sequence on a VirtualDevice (clock 4/2/1, modulation 20 MHz); phases on the 2*pi*k/360 grid; "
                 "modulation buffers are an uninterpreted function of the waveform's defining data, so estimate and add see the same fall times"]

_base_kernels, _base_harness = kernels, harness

EST_PROGRAMS = {
    "same_channel_phase_jump": dict(
        chans=[("g", "ryd_glob", None)],
        pre=[["add", "g", "A", False]], target="g"),
    "phase_ref_from_post_shift": dict(
        chans=[("g", "ryd_glob", None)],
        pre=[["add", "g", "A", True]], target="g"),
    "phase_ref_from_shift": dict(
        chans=[("g", "ryd_glob", None)],
        pre=[["shift", ["q0", "q1", "q2"], "ground-rydberg"], ["add", "g", "A", False]], target="g"),
    "two_channels": dict(
        chans=[("g", "ryd_glob", None), ("l", "ryd_loc", "q0")],
        pre=[["add", "g", "A", True], ["add", "l", "B", False]], target="l"),
    "two_channels_retarget": dict(
        chans=[("g", "ryd_glob", None), ("l", "ryd_loc", "q0")],
        pre=[["add", "l", "A", False], ["delay", "l"], ["target", "l", "q1"], ["add", "g", "B", True]], target="l"),
    # the new pulse goes to the DMM (it targets every atom of its map, basis ground-rydberg)
    "dmm_after_post_shift": dict(
        chans=[("l", "ryd_loc", "q2")], dmm=True,
        pre=[["add", "l", "A", True]], target="dmm_0"),
    "dmm_after_shift": dict(
        chans=[("l", "ryd_loc", "q1")], dmm=True,
        pre=[["add", "l", "A", False], ["shift", ["q1"], "ground-rydberg"]], target="dmm_0"),
    "dmm_second_pulse": dict(
        chans=[("l", "ryd_loc", "q1")], dmm=True,
        pre=[["add_dmm"], ["add", "l", "A", True]], target="dmm_0"),
    # the detuning map is configured BEFORE the channels (it creates the ground-rydberg reference table); q1 is shifted after
    # a long global pulse, the new pulse goes to a channel that targets q0 only: q0 has no barrier of its own
    "dmm_first_disjoint": dict(
        chans=[("g", "ryd_glob", None), ("l", "ryd_loc", "q0")], dmm="first", expect_barrier=0,
        pre=[["add", "g", "A", False], ["shift", ["q1"], "ground-rydberg"]], target="l"),
    "other_basis": dict(
        chans=[("a", "ram_glob", None), ("b", "ram_loc", "q0")],
        pre=[["add", "a", "A", True], ["shift", ["q0"], "digital"], ["add", "b", "B", False]], target="b"),
}


def h_estimate(shape):
    P = EST_PROGRAMS[shape["program"]]

    def h(inp):
        stubs.bind(inp)
        from pulser.pulse import Pulse

        seq = l2.new_seq("virt")
        if P.get("dmm") == "first":
            seq.config_detuning_map(seq.get_register().define_detuning_map({"q0": 0.5, "q1": 1.0, "q2": 0.0}), "dmm_0")
        for (n, cid, it) in P["chans"]:
            seq.declare_channel(n, cid, **({"initial_target": it} if it else {}))
        if P.get("dmm") and P.get("dmm") != "first":
            seq.config_detuning_map(seq.get_register().define_detuning_map({"q0": 0.5, "q1": 1.0, "q2": 0.0}), "dmm_0")
        try:
            for i, op in enumerate(P["pre"]):
                if op[0] == "add_dmm":
                    from pulser.waveforms import ConstantWaveform

                    seq.add_dmm_detuning(ConstantWaveform(100, -1.0), "dmm_0")  # concrete length: keeps the path count down
                elif op[0] == "add":
                    ph = inp.phase("ph%d" % i, 360, -1, 1)
                    post = inp.phase("post%d" % i, 360, -1, 1) if op[3] else 0.0
                    seq.add(Pulse.ConstantPulse(inp.mult("d%d" % i, 4, 8, 400), 1.0, 0.0, ph, post), op[1])
                elif op[0] == "shift":
                    seq.phase_shift(inp.phase("phi%d" % i, 360, -1, 1), *op[1], basis=op[2])
                elif op[0] == "delay":
                    seq.delay(inp.mult("d%d" % i, 4, 8, 400), op[1])
                elif op[0] == "target":
                    seq.target(op[2], op[1])
        except l2.REFUSALS:
            raise core.Infeasible()
        ch = P["target"]
        if P.get("dmm") and P["target"].startswith("dmm"):
            from pulser.waveforms import ConstantWaveform

            new_wf = ConstantWaveform(inp.mult("dn", 4, 8, 400), -2.0)
            new = Pulse.ConstantAmplitude(0, new_wf, 0)
        else:
            new = Pulse.ConstantPulse(inp.mult("dn", 4, 8, 400), 1.0, 0.0, inp.phase("phn", 360, -1, 1))
        before = l2.snapshot(seq)
        proto = shape["protocol"]
        basis = seq.declared_channels[ch].basis
        barrier = smax([seq._basis_ref[basis][q].phase.last_time for q in seq._last(ch).targets])
        if "expect_barrier" in P:
            barrier = P["expect_barrier"]  # known from the program itself (independent of the implementation's bookkeeping)
        try:
            est = seq.estimate_added_delay(new, ch, proto)
        except l2.REFUSALS:
            est = None
        obs = [("c03:estimate_is_read_only", l2.snap_equal(before, l2.snapshot(seq)))]
        t0 = seq._schedule[ch][-1].tf
        try:
            if P.get("dmm") and ch.startswith("dmm"):
                seq.add_dmm_detuning(new_wf, ch, proto)
            else:
                seq.add(new, ch, proto)
            added = True
        except l2.REFUSALS:
            added = False
        obs.append(("c03:estimate_and_add_agree_on_refusal", (est is not None) == added))
        if added and est is not None:
            real = seq._schedule[ch][-1].ti - t0
            obs.append(("c03:estimate_equals_inserted_delay", est == real))
        if added:
            ti = seq._schedule[ch][-1].ti
            # the phase-shift barrier of the targets (time of their last reference change) binds every protocol
            obs.append(("c03:not_before_phase_barrier", ti >= barrier))
            if proto == "no-delay":
                chobj = seq.declared_channels[ch]
                need = barrier - t0
                delta = smax(need, chobj.min_duration)
                delta = delta + ((-delta) % chobj.clock_period)
                obs.append(("c03:nodelay_starts_at_end_or_barrier", ti == core.ITE(need > 0, t0 + delta, t0)))
        return obs

    return h


def h_align(shape):
    """align makes the channels end together at the latest of their ends
    (counting the fall time when at_rest)."""

    def h(inp):
        stubs.bind(inp)
        from pulser.pulse import Pulse

        seq = l2.new_seq("virt")
        names = []
        for (n, cid, it) in shape["chans"]:
            seq.declare_channel(n, cid, **({"initial_target": it} if it else {}))
            names.append(n)
        try:
            for i, n in enumerate(names):
                for j, kind in enumerate(shape["pre"][i]):
                    if kind == "p":
                        seq.add(Pulse.ConstantPulse(inp.mult("d%d_%d" % (i, j), 4, 8, 400), 1.0, 0.0, 0.0), n, "no-delay")
                    else:
                        seq.delay(inp.mult("d%d_%d" % (i, j), 4, 8, 400), n)
        except l2.REFUSALS:
            raise core.Infeasible()
        at_rest = shape["at_rest"]
        ends = {n: seq.get_duration(n, include_fall_time=at_rest) for n in names}
        old_end = {n: seq.get_duration(n) for n in names}
        latest = smax(list(ends.values()))
        seq.align(*names, at_rest=at_rest)
        obs = []
        for n in names:
            cs = seq._schedule[n]
            ch = cs.channel_obj
            clock = ch.clock_period
            e = seq.get_duration(n)
            need = latest - old_end[n]
            # each channel ends at the smallest admissible time >= the latest end
            delta = smax(need, ch.min_duration)
            delta = delta + ((-delta) % clock)
            obs.append(("c03:align_end", e == core.ITE(need > 0, old_end[n] + delta, old_end[n])))
            obs.append(("c03:align_reaches_latest", e >= latest))
        return obs

    return h


def kernels(tier):
    ks = _base_kernels(tier)
    for prog in EST_PROGRAMS:
        for proto in ("min-delay", "no-delay", "wait-for-all"):
            ks.append(("estimate", dict(program=prog, protocol=proto)))
    chans2 = [("g", "ryd_glob", None), ("l", "ryd_loc", "q0")]
    chans3 = chans2 + [("a", "ram_glob", None)]
    for at_rest in (True, False):
        for pre in (["p", "d"], ["p", "p"], ["pd", "p"], ["", "p"], ["dp", "pd"]):
            ks.append(("align", dict(chans=chans2, pre=[list(x) for x in pre], at_rest=at_rest)))
        ks.append(("align", dict(chans=chans3, pre=[["p"], ["d"], ["p", "d"]], at_rest=at_rest)))
    return ks


def harness(kernel, shape):
    if kernel == "estimate":
        return h_estimate(shape)
    if kernel == "align":
        return h_align(shape)
    return _base_harness(kernel, shape)


# ---- K0: the contract of the modulation-buffer stub, on the real function ---

_k_prev, _h_prev = kernels, harness


def h_buffer_contract(shape):
    """Channel.calc_modulation_buffer returns 0 <= start, end <= rise_time for
    arbitrary input / modulated samples (the contract assumed by the stub)."""

    def h(inp):
        from pulser.channels import Rydberg
        from pulser.channels.eom import RydbergBeam, RydbergEOM
        import numpy as _np

        bw = shape["bw"]
        eom = shape.get("eom_bw")
        kw = {}
        if eom:
            kw["eom_config"] = RydbergEOM(limiting_beam=RydbergBeam.RED, max_limiting_amp=100.0, intermediate_detuning=4000.0,
                                          controlled_beams=(RydbergBeam.BLUE,), mod_bandwidth=eom)
        ch = Rydberg.Global(None, None, mod_bandwidth=bw, **kw)
        tr = ch.eom_config.rise_time if eom else ch.rise_time
        n = shape["n"]
        x = _np.empty(n, dtype=object)
        for i in range(n):
            x[i] = inp.real("in%d" % i, -10, 10)
        y = _np.empty(n + 2 * tr, dtype=object)
        for i in range(n + 2 * tr):
            y[i] = inp.real("mod%d" % i, -10, 10)
        start, end = ch.calc_modulation_buffer(x, y, eom=bool(eom))
        return [("c03:buffer_contract", AND(start >= 0, start <= tr, end >= 0, end <= tr))]

    return h


def kernels(tier):
    ks = _k_prev(tier)
    for bw, n in ((480.0, 1), (480.0, 2), (240.0, 1), (240.0, 2), (160.0, 1)) + (() if tier == "quick" else ((160.0, 2), (120.0, 1))):
        ks.append(("buffer_contract", dict(bw=bw, n=n)))
    ks.append(("buffer_contract", dict(bw=100.0, eom_bw=240.0, n=1)))
    return ks


def harness(kernel, shape):
    if kernel == "buffer_contract":
        return h_buffer_contract(shape)
    return _h_prev(kernel, shape)
