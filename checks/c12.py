"""C12 - a device accepts exactly the registers and layouts that fit its geometry.

K1 coords   BaseDevice._validate_coords / validate_register on real devices,
            <= 2 atoms with symbolic coordinates among <= 4 (R-mode, exact sqrt)
K2 layout   validate_layout (trap counts) and validate_layout_filling
K3 params   BaseDevice.__post_init__ parameter validation (VirtualDevice)
K4 closure  Register.max_connectivity(n, device, spacing) and
            Register.with_automatic_layout(device) are accepted by the device
"""
from __future__ import annotations

import itertools

import numpy as np
import z3

from symx import core, facade, stubs
from symx.core import AND, IFF, IMPLIES, ITE, NOT, OR, SBool, SInt, SReal, is_sym, smax, smin

PROPERTY = "C12"
PREC = 10 ** (-6)
STUBS = [
    "scipy pdist / squareform and np.linalg.norm on proxies: Euclidean distance via an exact square root (fresh y >= 0, y*y == s), scipy's pair order",
    "coordinates are exact reals (R-mode); at most two atoms are symbolic, the others come from a small concrete family",
    "with_automatic_layout: builtins range/max/min in pulser.register._layout_gen rebound so that a symbolic trap count is concretised by forking "
    "(every feasible count is a path); the mesh search itself runs concretely",
]
FLOAT_MODE = "R-mode exact reals, QF_NRA for distances"
BOUNDS = {"quick": dict(atoms="<=3 (<=2 symbolic)", dims=[2, 3]), "thorough": dict(atoms="<=4 (<=2 symbolic)", dims=[2, 3])}
OUTSIDE = ["three or more fully symbolic atoms (NRA does not terminate)", "two symbolic 3D atoms among three together with a symbolic minimal distance (NRA > 25 min)", "calibrated layouts of real devices", "draw"]
TIMEOUT_MS = {"quick": 30000, "thorough": 90000}


def _pdist(a):
    arr = a.as_array(detach=True) if hasattr(a, "as_array") else real_np().asarray(a)
    import pulser.math as pm

    if arr.dtype != object:
        import scipy.spatial.distance as sd

        return pm.AbstractArray(sd.pdist(arr))
    n = arr.shape[0]
    out = []
    for i in range(n):
        for j in range(i + 1, n):
            s = 0
            for k in range(arr.shape[1]):
                d = arr[i, k] - arr[j, k]
                s = s + d * d
            out.append(core.SSqrt(s) if is_sym(s) else float(s) ** 0.5)
    res = real_np().empty(len(out), dtype=object)
    for i, v in enumerate(out):
        res[i] = v
    return pm.AbstractArray(res)


def _squareform(v):
    import scipy.spatial.distance as sd

    v = real_np().asarray(v)
    if v.dtype != object:
        return sd.squareform(v)
    m = len(v)
    n = int(round((1 + (1 + 8 * m) ** 0.5) / 2))
    out = real_np().empty((n, n), dtype=object)
    out[...] = 0.0
    k = 0
    for i in range(n):
        for j in range(i + 1, n):
            out[i, j] = v[k]
            out[j, i] = v[k]
            k += 1
    return out


def real_np():
    import numpy

    return numpy


class _SymRange:
    """range() whose bounds may be SInt: concretised by forking."""

    def __call__(self, *a):
        vals = [concretize(x) for x in a]
        import builtins

        return builtins.range(*vals)


def concretize(x, lo=-4, hi=256):
    if not isinstance(x, SInt):
        return x
    for v in range(lo, hi + 1):
        if bool(x == v):
            return v
    raise core.Realise("concretize: value out of [%d, %d]" % (lo, hi))


def setup():
    import pulser.devices._device_datacls as dd
    import pulser.math as pm
    import pulser.register._layout_gen as lg
    import pulser.register.register as rg
    import pulser.register.base_register as br
    import pulser.register.register_layout as rl
    import pulser.register.traps as tr
    import pulser.register._coordinates as co

    facade.install(extra_np=(dd, rg, br, rl, tr, co, lg), extra_float=(dd, lg), extra_int=(dd, lg), extra_maxmin=(dd, lg))
    stubs.init()
    pm.pdist = _pdist
    dd.squareform = _squareform
    lg.range = _SymRange()

    def _norm(x, ord=None, axis=None, **kw):
        arr = real_np().asarray(x)
        if arr.dtype != object:
            return real_np().linalg.norm(x, ord=ord, axis=axis, **kw)
        assert arr.ndim == 2 and axis == 1
        out = real_np().empty(arr.shape[0], dtype=object)
        for i in range(arr.shape[0]):
            t = 0
            for v in arr[i]:
                t = t + v * v
            out[i] = core.SSqrt(t) if is_sym(t) else float(t) ** 0.5
        return out

    class _LA:
        def __getattr__(self, n):
            return getattr(real_np().linalg, n)

        norm = staticmethod(_norm)

    class _NP(type(facade.FACADE)):
        linalg = _LA()

    dd.np = _NP()
    core.HASH_ZERO[0] = True


def setup_concrete():
    stubs.init()


def mk_device(inp, shape, **over):
    from pulser.channels import DMM, Rydberg
    from pulser.devices import VirtualDevice

    lim = shape.get("chan_limits")
    chan = Rydberg.Global(None, None) if not lim else Rydberg.Global(
        inp.real("chan_max_det", 0.5, 100) if lim[0] else None, inp.real("chan_max_amp", 0.5, 100) if lim[1] else None)
    kw = dict(name="dev", dimensions=shape.get("dims", 3), rydberg_level=60, channel_objects=(chan,))
    if "dims" in over:
        kw["dimensions"] = over.pop("dims")
    kw.update(over)
    return VirtualDevice(**kw)


BASE_ATOMS = {2: [(0.0, 0.0), (6.0, 0.0), (0.0, 7.0), (-5.0, -5.0)],
              3: [(0.0, 0.0, 0.0), (6.0, 0.0, 1.0), (0.0, 7.0, -2.0), (-5.0, -5.0, 0.5)]}


UNSORTED = ["q2", "q10", "q1", "b"]  # ids whose order in the register is not their alphabetical order ("q10" < "q2")


def h_coords(shape):
    dims = shape["dims"]
    n, nsym = shape["n"], shape["nsym"]
    nm = (lambda i: UNSORTED[i]) if shape.get("unsorted") else (lambda i: "q%d" % i)

    def h(inp):
        from pulser.exceptions.sequence import AtomsNumberError, DistanceError, RadiusError
        import pulser.math as pm

        mind = inp.real("min_atom_distance", 0, 20) if shape["mind"] else 0.0
        maxr = inp.real("max_radial_distance", 0, 100) if shape["maxr"] else None
        maxn = inp.int("max_atom_num", 1, 10) if shape["maxn"] else None
        kw = dict(min_atom_distance=mind, max_radial_distance=maxr, max_atom_num=maxn)
        # max_radial_distance must be int-typed on construction; bypass type by setting after
        dev = mk_device(inp, shape, min_atom_distance=mind, max_atom_num=maxn, max_radial_distance=None)
        object.__setattr__(dev, "max_radial_distance", maxr)
        coords = {}
        pts = []
        for i in range(n):
            if i < nsym and shape.get("axis"):
                p = [inp.real("x%d_0" % i, -60, 60)] + [0.0] * (dims - 1)
            elif i < nsym:
                p = [inp.real("x%d_%d" % (i, k), -60, 60) for k in range(dims)]
            else:
                p = list(BASE_ATOMS[dims][i])
            pts.append(p)
            arr = real_np().empty(dims, dtype=object)
            for k in range(dims):
                arr[k] = p[k]
            coords[nm(i)] = pm.AbstractArray(arr) if any(is_sym(v) for v in p) else pm.AbstractArray(real_np().array(p, dtype=float))
        try:
            dev._validate_coords(coords, kind="atoms")
            res = ("ok", None)
        except AtomsNumberError as e:
            res = ("num", None)
        except DistanceError as e:
            res = ("dist", list(e.invalid))
        except RadiusError as e:
            res = ("radius", list(e.invalid))
        # reference (in squared form)
        def sq(i, j):
            s = 0
            for k in range(dims):
                d = pts[i][k] - pts[j][k]
                s = s + d * d
            return s

        EPS = 0.0 if shape.get("axis") else 1e-9  # (axis shapes: roots are exact, no band) the code compares binary64 roots; the reference is exact: a band of EPS around each threshold is unspecified

        def lt_c(s, c):  # sqrt(s) < c
            return AND(c > 0, s < c * c)

        bad_def, bad_pos = {}, {}
        for i in range(n):
            for j in range(i + 1, n):
                bad_def[(i, j)] = OR(lt_c(sq(i, j), mind - PREC - EPS), lt_c(sq(i, j), PREC - EPS))
                bad_pos[(i, j)] = OR(lt_c(sq(i, j), mind - PREC + EPS), lt_c(sq(i, j), PREC + EPS))
        far_def, far_pos = {}, {}
        if maxr is not None:
            for i in range(n):
                s = 0
                for k in range(dims):
                    s = s + pts[i][k] * pts[i][k]
                far_def[i] = s > (maxr + EPS) * (maxr + EPS)
                far_pos[i] = OR(maxr - EPS < 0, s > (maxr - EPS) * (maxr - EPS))
        too_many = (n > maxn) if maxn is not None else False
        any_bad_def = OR(*bad_def.values()) if bad_def else False
        any_bad_pos = OR(*bad_pos.values()) if bad_pos else False
        any_far_def = OR(*far_def.values()) if far_def else False
        any_far_pos = OR(*far_pos.values()) if far_pos else False
        obs = []
        if res[0] == "ok":
            obs.append(("k1:accepted_register_fits", AND(NOT(too_many), NOT(any_bad_def), NOT(any_far_def))))
        else:
            obs.append(("k1:fitting_register_is_accepted", OR(too_many, any_bad_pos, any_far_pos)))
        if res[0] == "num":
            obs.append(("k1:atoms_number_error", too_many))
        if res[0] == "dist":
            obs.append(("k1:distance_error_has_cause", AND(NOT(too_many), any_bad_pos)))
            reported = {tuple(p) for p in res[1]}
            for (i, j) in bad_def:
                rep = (nm(i), nm(j)) in reported or (nm(j), nm(i)) in reported
                obs.append(("k1:offending_pairs_exact", AND(IMPLIES(rep, bad_pos[(i, j)]), IMPLIES(bad_def[(i, j)], rep))))
            order = {nm(i): i for i in range(n)}
            obs.append(("k1:offending_pairs_wellformed", all(p[0] in order and p[1] in order and order[p[0]] < order[p[1]] for p in reported)))
        if res[0] == "radius":
            obs.append(("k1:radius_error_has_cause", AND(NOT(too_many), NOT(any_bad_def), any_far_pos)))
            for i in far_def:
                rep = nm(i) in res[1]
                obs.append(("k1:offending_atoms_exact", AND(IMPLIES(rep, far_pos[i]), IMPLIES(far_def[i], rep))))
        return obs

    return h


def h_layout(shape):
    def h(inp):
        from pulser.exceptions.sequence import QubitsNumberError
        from pulser.register.register_layout import RegisterLayout

        ntraps = shape["ntraps"]
        lay = RegisterLayout([[5.0 * (i % 4), 5.0 * (i // 4)] for i in range(ntraps)])
        fill = inp.real("max_layout_filling", 0, 1)
        inp.assume(fill > 0)
        mn = inp.int("min_layout_traps", 1, 40)
        mx = inp.int("max_layout_traps", 1, 40) if shape["maxt"] else None
        try:
            dev = mk_device(inp, shape, dims=2, max_layout_filling=fill, min_layout_traps=mn, max_layout_traps=mx)
        except (ValueError, TypeError):
            raise core.Infeasible()
        obs = []
        if shape.get("history"):
            # the verdict is a function of (device, layout) alone: the same layout was accepted by a more permissive device before
            from pulser.devices import MockDevice

            MockDevice.validate_layout(lay)
            mk_device(inp, shape, dims=2, max_layout_filling=fill, min_layout_traps=1, max_layout_traps=None).validate_layout(lay)
        try:
            dev.validate_layout(lay)
            ok = True
        except (ValueError, TypeError):
            ok = False
        fits = AND(ntraps >= mn, (ntraps <= mx) if mx is not None else True)
        obs.append(("k2:layout_accept_iff_trap_count_fits", IFF(ok, fits)))
        nq = shape["nq"]
        reg = lay.define_register(*range(nq))
        try:
            dev.validate_layout_filling(reg)
            okf = True
        except QubitsNumberError:
            okf = False
        # n_qubits <= floor(traps * filling)  <=>  n_qubits <= traps * filling
        obs.append(("k2:filling_accept_iff_within_fraction", IFF(okf, nq <= ntraps * fill)))
        # the whole validate_register on a layout-defined register: every rule applies together
        maxn = inp.int("max_atom_num", 1, 40)
        try:
            dev2 = mk_device(inp, shape, dims=2, max_layout_filling=fill, min_layout_traps=mn, max_layout_traps=mx, max_atom_num=maxn)
        except (ValueError, TypeError):
            return obs
        try:
            dev2.validate_register(reg)
            okr = True
        except Exception:  # noqa: BLE001
            okr = False
        obs.append(("k2:layout_register_accept_iff_all_rules", IFF(okr, AND(fits, nq <= ntraps * fill, nq <= maxn))))
        return obs

    return h


def h_layout_sym(shape):
    """validate_layout on a layout with one symbolic trap (decimal grid 1e-7, so that the layout's 6-decimal rounding is
    modelled exactly): accepted iff the traps, as the layout stores them, respect the minimal distance."""

    def h(inp):
        from pulser.register.register_layout import RegisterLayout

        rng = shape["range"]
        P = [[0.0, 0.0], [6.0, 0.0], [inp.fix("tx", 7, -rng, rng), inp.fix("ty", 7, -rng, rng)]]
        try:
            lay = RegisterLayout(P)
        except ValueError:
            raise core.Infeasible()  # bit-identical traps are refused at construction
        mind = shape["mind"]
        dev = mk_device(inp, shape, dims=2, min_atom_distance=mind, min_layout_traps=1)
        try:
            dev.validate_layout(lay)
            ok = True
        except (ValueError, TypeError):
            ok = False
        R = [[(x.round(6) if is_sym(x) else float(np.round(x, 6))) for x in p] for p in P]

        def sq(i, j):
            s = 0
            for k in range(2):
                d = R[i][k] - R[j][k]
                s = s + d * d
            return s

        EPS = 1e-9

        def lt_c(s, c):
            return AND(c > 0, s < c * c)

        pairs = [(0, 2), (1, 2)]
        bad_def = OR(*[OR(lt_c(sq(i, j), mind - PREC - EPS), lt_c(sq(i, j), PREC - EPS)) for i, j in pairs])
        bad_pos = OR(*[OR(lt_c(sq(i, j), mind - PREC + EPS), lt_c(sq(i, j), PREC + EPS)) for i, j in pairs])
        obs = [("k2:layout_keeps_every_trap", lay.number_of_traps == 3 and len(lay.traps_dict) == 3)]
        if ok:
            obs.append(("k2:accepted_layout_respects_min_distance", NOT(bad_def)))
        else:
            obs.append(("k2:fitting_layout_is_accepted", bad_pos))
        return obs

    return h


def h_params(shape):
    def h(inp):
        kw = {}
        sym = shape["sym"]
        vals = {}
        for p in sym:
            if p in ("min_atom_distance", "max_layout_filling", "optimal_layout_filling"):
                vals[p] = inp.real(p, -5, 50)
            else:
                vals[p] = inp.int(p, -5, 200)
        try:
            mk_device(inp, shape, **vals)
            ok = True
        except (ValueError, TypeError):
            ok = False
        g = lambda p, d: vals.get(p, d)  # noqa: E731
        terms = []
        if "min_atom_distance" in sym:
            terms.append(vals["min_atom_distance"] >= 0)
        for p in ("max_atom_num", "max_radial_distance", "max_sequence_duration", "max_runs", "min_layout_traps", "max_layout_traps"):
            if p in sym:
                terms.append(vals[p] > 0)
        fill = g("max_layout_filling", 0.5)
        if "max_layout_filling" in sym:
            terms.append(AND(fill > 0, fill <= 1))
        if "optimal_layout_filling" in sym:
            terms.append(AND(vals["optimal_layout_filling"] > 0, vals["optimal_layout_filling"] <= fill))
        if "max_layout_traps" in sym:
            terms.append(vals["max_layout_traps"] >= g("min_layout_traps", 1))
            if "max_atom_num" in sym:
                # floor(fill * max_traps) >= max_atom_num  <=> fill*max_traps >= max_atom_num
                terms.append(fill * vals["max_layout_traps"] >= vals["max_atom_num"])
        return [("k3:constructible_iff_documented_constraints", IFF(ok, AND(*terms)))]

    return h


def h_maxconn(shape):
    def h(inp):
        from pulser import Register

        n = shape["n"]
        if shape["spacing"]:
            mind = 4.0
            spacing = inp.real("spacing", 0, 40)
        else:
            mind = inp.real("min_atom_distance", 0.5, 20)
            spacing = None
        dev = mk_device(inp, shape, dims=2, min_atom_distance=mind, max_atom_num=shape.get("maxn", 10))
        if shape.get("maxr"):
            object.__setattr__(dev, "max_radial_distance", inp.real("max_radial_distance", 1, 100))
        try:
            reg = Register.max_connectivity(n, dev, spacing=spacing)
        except (ValueError, NotImplementedError):
            ok_args = AND(spacing >= mind) if spacing is not None else True
            return [("k4:max_connectivity_refused_only_for_bad_spacing", NOT(ok_args))]
        why = None
        try:
            dev.validate_register(reg)
            ok = True
        except Exception as e:  # noqa: BLE001
            ok = False
            why = type(e).__name__
        inp.publish("refused_with_RadiusError@k4:max_connectivity_register_is_accepted", why == "RadiusError")
        return [("k4:max_connectivity_register_is_accepted", ok)]

    return h


def h_autolayout(shape):
    def h(inp):
        from pulser import Register

        fill = inp.real("max_layout_filling", 0, 1)
        inp.assume(fill >= 0.2)
        opt = None
        if shape["opt"]:
            opt = inp.real("optimal_layout_filling", 0, 1)
            inp.assume(AND(opt >= 0.2, opt <= fill))
        from pulser.channels import Rydberg
        from pulser.devices import Device

        dev = Device(name="dev", dimensions=2, rydberg_level=60, min_atom_distance=4, max_radial_distance=40, max_atom_num=shape.get("maxn", 20),
                     max_layout_filling=fill, optimal_layout_filling=opt, min_layout_traps=shape.get("min_traps", 1),
                     max_layout_traps=shape.get("max_traps", 200),
                     channel_objects=(Rydberg.Global(12.0, 12.0, max_duration=1000),))
        pts = [(0.0, 0.0), (5.0, 0.0), (0.0, 5.0), (5.0, 5.0), (10.0, 0.0)][: shape["n"]]
        if shape.get("bad") == "close":
            pts[1] = (2.0, 0.0)
        elif shape.get("bad") == "far":
            pts[1] = (45.0, 0.0)
        reg = Register.from_coordinates(pts, center=False, prefix="q")
        # region of finding F44: the register handed in is itself one the device refuses (too many atoms, too close, too far)
        try:
            dev.validate_register(reg)
            inp.publish("input_register_itself_refused@k4:automatic_layout_register_is_accepted", False)
        except Exception:  # noqa: BLE001
            inp.publish("input_register_itself_refused@k4:automatic_layout_register_is_accepted", True)
        try:
            reg2 = reg.with_automatic_layout(dev)
        except (RuntimeError, ValueError):
            return []  # documented: may fail to find sites (or refuse the register)
        try:
            dev.validate_register(reg2)
            ok = True
        except Exception:  # noqa: BLE001
            ok = False
        return [("k4:automatic_layout_register_is_accepted", ok)]

    return h


def kernels(tier):
    quick = tier == "quick"
    ks = []
    for dims in (2, 3):
        for n, nsym in ([(1, 1), (2, 1), (2, 2), (3, 1)] + ([] if quick else [(3, 2), (4, 1)])):
            for mind in (True, False):
                for maxr in (True, False):
                    if nsym == 2 and n == 3 and (maxr and mind):
                        continue
                    if nsym == 2 and n == 3 and dims == 3 and mind:
                        continue  # two fully symbolic 3D atoms among three with a symbolic minimal distance: NRA needs > 25 min
                    ks.append(("coords", dict(dims=dims, n=n, nsym=nsym, mind=mind, maxr=maxr, maxn=(n >= 2 and nsym == 1))))
    # four atoms (pair bookkeeping differs from the 3-atom case: condensed-vector index <-> pair)
    ks.append(("coords", dict(dims=2, n=4, nsym=1, mind=True, maxr=False, maxn=False)))
    ks.append(("coords", dict(dims=2, n=4, nsym=0, mind=True, maxr=False, maxn=False, shift=True)))
    # ids that are not in alphabetical order (the offenders are named by position in the register, not by sorted id)
    for n, nsym in ((2, 1), (3, 1), (4, 1)):
        for mind, maxr in ((True, False), (False, True)):
            ks.append(("coords", dict(dims=2, n=n, nsym=nsym, mind=mind, maxr=maxr, maxn=False, unsorted=True)))
    # atoms on one axis: distances are exact in binary64, so the thresholds themselves (==) are decided too
    for n in (1, 2):
        for mind in (True, False):
            for maxr in (True, False):
                ks.append(("coords", dict(dims=2, n=n, nsym=1, mind=mind, maxr=maxr, maxn=False, axis=True)))
    for ntraps, nq in ((4, 2), (5, 3), (9, 4)):
        for maxt in (True, False):
            ks.append(("layout", dict(ntraps=ntraps, nq=nq, maxt=maxt)))
            ks.append(("layout", dict(ntraps=ntraps, nq=nq, maxt=maxt, history=True)))
    for mind in (0.0, 1.0):
        for rng in (2, 0.00001):
            ks.append(("layout_sym", dict(mind=mind, range=rng)))
    P = ["min_atom_distance", "max_atom_num", "max_radial_distance", "max_sequence_duration", "max_runs",
         "min_layout_traps", "max_layout_traps", "max_layout_filling", "optimal_layout_filling"]
    for p in P:
        ks.append(("params", dict(sym=[p])))
    # channels that limit only one of amplitude / detuning (or both): the device is constructible all the same
    for lim in ((True, False), (False, True), (True, True)):
        ks.append(("params", dict(sym=["max_atom_num"], chan_limits=list(lim))))
    for combo in (["min_layout_traps", "max_layout_traps"], ["max_layout_traps", "max_atom_num", "max_layout_filling"],
                  ["max_layout_filling", "optimal_layout_filling"], ["max_layout_traps", "max_atom_num"]):
        ks.append(("params", dict(sym=combo)))
    for n in (1, 2, 3, 4) if quick else (1, 2, 3, 4, 5, 7):
        for sp in (True, False):
            ks.append(("maxconn", dict(n=n, spacing=sp)))
    # ... on a device that also limits the distance from the centre
    for n in (2, 3):
        ks.append(("maxconn", dict(n=n, spacing=True, maxr=True)))
    for n in (2, 3) if quick else (2, 3, 4, 5):
        for opt in (False, True):
            ks.append(("autolayout", dict(n=n, opt=opt)))
    # registers the device itself refuses: more atoms than it holds, two atoms too close, one too far out
    for extra in (dict(n=4, maxn=3), dict(n=3, bad="close"), dict(n=3, bad="far")):
        ks.append(("autolayout", dict(opt=False, **extra)))
    return ks


def harness(kernel, shape):
    return {"coords": h_coords, "layout": h_layout, "layout_sym": h_layout_sym, "params": h_params, "maxconn": h_maxconn, "autolayout": h_autolayout}[kernel](shape)
