"""C08 - building a parametrized sequence equals direct construction.

Twin harness: a template program with variables (items, arithmetic, function
expressions) is built with symbolic values and compared with the same calls
issued directly with those values; two further builds (other values, then the
first values again) check independence/reproducibility (stale caches).
Mappable registers: resolution to the requested traps in declared order and
index-based targeting (trap ids concrete: enumeration, not solver-decided).
"""
from __future__ import annotations

import itertools

import numpy as np

from checks import c04, l2
from symx import core, facade, stubs
from symx.core import AND, IFF, IMPLIES, ITE, NOT, OR, is_sym

PROPERTY = "C08"
STUBS = c04.STUBS[1:] + ["variable values: floats are symbolic reals in [0.125, 4]; int variables used as durations are symbolic multiples of 4 in [8, 40]; "
                         "index variables are concrete"]
FLOAT_MODE = "R-mode reals for variable values"
BOUNDS = {"quick": dict(templates=6, expression_depth="<=3", builds=3), "thorough": dict(templates=6, expression_depth="<=3", builds=4, prefixes="every proper prefix of a template that already uses a variable")}
OUTSIDE = ["mappable-register order is concrete enumeration", "np.sin/cos/... of variables are uninterpreted functions"]

E = c04.E
S = c04.S

setup = c04.setup
setup_concrete = c04.setup_concrete

EXTRA = {
    "funcs": dict(device="mock", vars=[("a", "float", 1), ("b", "float", 1)], prog=[
        ["declare", "g", "rydberg_global"],
        ["add", "g", ["cp", 16, E("abs", ["sub", ["var", "a"], ["var", "b"]]), E("sin", ["var", "a"]), E("mod", ["mul", ["var", "b"], 3.0], 2.0)]],
        ["add", "g", ["pulse", ["ramp", 12, E("div", ["var", "a"], 8.0), E("add", ["div", ["var", "a"], 8.0], ["var", "b"])],
                      ["const", 12, E("floordiv", ["var", "b"], 2.0)], E("neg", ["var", "a"])], "no-delay"]]),
    "array_whole": dict(device="mock", vars=[("arr", "float", 4)], prog=[
        ["declare", "g", "rydberg_global"],
        ["add", "g", ["pulse", ["custom", E("var", "arr")], ["const", 4, 0.0], 0.0]] if False else
        ["add", "g", ["cp", 16, E("item", "arr", 3), E("sub", ["item", "arr", 0], ["item", "arr", 1]), E("item", "arr", 2)]]]),
}
EXTRA.update({
    # an array variable handed over whole / as a slice (the built waveform may keep the very array the variable holds)
    "array_custom": dict(device="mock", vars=[("arr", "float", 4)], prog=[
        ["declare", "g", "rydberg_global"],
        ["add", "g", ["pulse", ["custom", E("var", "arr")], ["const", 4, E("item", "arr", 0)], 0.0]],
        ["add", "g", ["pulse", ["custom", E("slice", "arr", 1, 4)], ["const", 3, 0.0], 0.5]]]),
    # one (negative) expression object used by from_max_val and, again, by a later pulse
    "blackman_shared_neg": dict(device="mock", vars=[("v", "float", 1)], concrete_vars=True, lets=[("low", ["neg", ["var", "v"]])], prog=[
        ["declare", "g", "rydberg_global"],
        ["add", "g", ["pulse", ["const", 120, 1.0], ["blackman_max", E("var", "low"), -0.05], 0.0]] if False else
        ["add", "g", ["cdet", ["const", 16, 1.0], E("var", "low"), 0.0]],
        ["add", "g", ["camp", 1.0, ["blackman_max", E("var", "low"), -0.05], 0.0]],
        ["add", "g", ["cdet", ["const", 16, 1.0], E("var", "low"), 0.0]]]),
})
EXTRA.update({
    # a detuning map configured (and used) BEFORE the sequence becomes parametrized, on a mappable register of which only two
    # of the three declared qubits are mapped at build time: the DMM addresses the atoms of the built register
    "mappable_dmm": dict(device="mock", reg="mappable3", direct_reg="mapped3", qubits={"q0": 1, "q1": 4},
                         qubits_alt={"q0": 2, "q1": 5}, direct_reg_alt="mapped3b", vars=[("x", "float", 1)], prog=[
        ["declare", "g", "rydberg_global"], ["config_dmap_traps", {1: 1.0, 4: 0.5, 2: 0.25, 5: 0.125}, "dmm_0"],
        ["add_dmm", "dmm_0", ["const", 16, -1.0]],
        ["add", "g", ["cp", 20, E("var", "x"), 0.0, 0.0]],
        ["add_dmm", "dmm_0", ["ramp", 16, E("neg", ["var", "x"]), E("div", ["neg", ["var", "x"]], 2.0)]]]),
    # every declared qubit mapped, the mapping written in another order than the declaration: indices follow the declaration
    "mappable_index_full": dict(device="mock", reg="mappable3", direct_reg="mapped3full", qubits={"q2": 5, "q0": 1, "q1": 4},
                                vars=[("a", "float", 1), ("t", "int", 2)], index_values=[2, 0], prog=[
        ["declare", "l", "rydberg_local", "q0"],
        ["add", "l", ["cp", 16, E("var", "a"), 0.0, 0.25]],
        ["target_index", "l", E("item", "t", 0)],
        ["add", "l", ["cp", 12, 1.0, 0.0, 0.0]],
        ["phase_shift_index", E("var", "a"), [1], "ground-rydberg"],
        ["target_index", "l", E("item", "t", 1)],
        ["add", "l", ["cp", 12, 1.0, E("neg", ["var", "a"]), 0.0]]]),
})
TEMPLATES = dict(c04.PARAM_PROGRAMS)
TEMPLATES.update(EXTRA)


def uses_variable(ops):
    import json

    return '"e":' in json.dumps(ops) or '"var"' in json.dumps(ops)


def h_build(shape):
    P = TEMPLATES[shape["program"]]
    if shape.get("upto"):
        P = dict(P, prog=P["prog"][:shape["upto"]])

    def h(inp):
        stubs.bind(inp)
        tmpl = c04.build_program(inp, P, env="declare")
        obs = [("build:template_parametrized", tmpl.is_parametrized())]
        snap_t = l2.snapshot(tmpl)
        v1 = c04.var_values(inp, P, "v")
        v2 = c04.var_values(inp, P, "w")
        # values that make the LAST use of an int variable fail (negative duration), when the template has one
        ints = [n_ for (n_, t_, s_) in P["vars"] if t_ == "int" and n_ != "t" and s_ == 1]
        bad = dict(v1, **{ints[-1]: -4}) if ints and not P.get("concrete_vars") else None  # (the floats of build 1, the next build uses others)
        builds = []
        kept = []  # timeline of each earlier result as the caller last saw it
        for vals in (v1, v2, v1, v1):
            try:
                if builds:
                    # the caller goes on using an earlier result: it must not leak into later builds
                    ch0 = list(builds[-1].declared_channels)[0]
                    if not builds[-1].is_measured() and not builds[-1].is_in_eom_mode(ch0) and not ch0.startswith("dmm"):
                        builds[-1].delay(100, ch0)
                    kept.append(l2.timeline(builds[-1]))
                if len(builds) == 1 and bad is not None:
                    # a build that FAILS half-way (after some parametrized objects were evaluated) leaves no trace in later builds
                    try:
                        tmpl.build(**dict(bad, **({"qubits": P["qubits"]} if P.get("qubits") else {})))
                    except Exception:  # noqa: BLE001
                        pass
                if len(builds) == 1:
                    # what the caller does with things the template HANDED OUT stays outside the template: the returned variable
                    # dict is edited, a derived sequence declares a variable of its own, and a call using a variable of ANOTHER
                    # sequence is refused -- the template is still parametrized, declares the same variables and builds the same
                    names0 = sorted(tmpl.declared_variables)
                    tmpl.declared_variables.pop(names0[0], None) if names0 else None
                    tmpl.declared_variables["zz_injected"] = None
                    try:
                        derived = tmpl.switch_register(tmpl.register)
                        derived.declare_variable("zz_derived")
                    except Exception:  # noqa: BLE001  (e.g. mappable registers cannot be switched)
                        pass
                    try:
                        import pulser as _p

                        foreign = _p.Sequence(_p.Register.square(2, spacing=6, prefix="f"), _p.MockDevice).declare_variable(names0[0] if names0 else "x")
                        tmpl.delay(foreign, list(tmpl.declared_channels)[0])
                        obs.append(("build:foreign_variable_refused", False))
                    except Exception:  # noqa: BLE001
                        pass
                    obs.append(("build:template_variables_unchanged", sorted(tmpl.declared_variables) == names0 and tmpl.is_parametrized()))
                # (a mappable register is resolved to OTHER traps in the second build)
                alt = bool(P.get("qubits_alt")) and len(builds) == 1
                qmap = P["qubits_alt"] if alt else P.get("qubits")
                dreg = P["direct_reg_alt"] if alt else P.get("direct_reg", P.get("reg", "reg3"))
                direct = c04.build_program(inp, dict(P, vars=None, reg=dreg), env=vals)
                try:
                    b = tmpl.build(**dict(vals, **({"qubits": qmap} if qmap else {})))
                except Exception:  # noqa: BLE001  (the direct construction with these values succeeded)
                    obs.append(("build:accepts_what_direct_construction_accepts", False))
                    return obs
                # ... and a later build must not reach back into the results handed out before
                for old_b, old_t in zip(builds, kept):
                    obs.append(("build:earlier_results_unaffected", l2.snap_equal(l2.timeline(old_b), old_t)))
            except l2.REFUSALS:
                raise core.Infeasible()
            builds.append(b)
            obs.append(("build:equals_direct_construction", l2.snap_equal(l2.timeline(b), l2.timeline(direct))))
            obs.append(("build:same_static_parts", AND(*c04.static_equal(b, direct))))
            obs.append(("build:result_not_parametrized", not b.is_parametrized()))
        obs.append(("build:independent_results", all(x is not y and x._schedule is not y._schedule for x, y in zip(builds, builds[1:]))))
        # the template is not altered by building (call logs, flags, channels)
        snap_after = l2.snapshot(tmpl)
        for key in ("schedule", "calls", "to_build_calls", "flags"):
            obs.append(("build:template_unchanged", l2.snap_equal(snap_t[key], snap_after[key])))
        return obs

    return h


def l2_is_pulse(slot):
    from pulser.pulse import Pulse

    return isinstance(slot.type, Pulse)


def h_mappable(shape):
    """MappableRegister resolution (concrete enumeration of trap choices)."""

    def h(inp):
        stubs.bind(inp)
        from pulser import Sequence
        from pulser.devices import MockDevice
        from pulser.pulse import Pulse
        from pulser.register.mappable_reg import MappableRegister
        from pulser.register.register_layout import RegisterLayout

        n_traps = 30
        lay = RegisterLayout([[4.0 * (i % 5), 4.0 * (i // 5)] for i in range(n_traps)])
        ids = shape["ids"]
        mreg = MappableRegister(lay, *ids)
        seq = Sequence(mreg, MockDevice)
        first = [q for q in ids if q in shape["chosen"]][0]
        seq.declare_channel("l", "rydberg_local", initial_target=first)
        # executed before the sequence becomes parametrized: moves the phase reference of `first`
        seq.add(Pulse.ConstantPulse(16, 1.0, 0.0, 0.0, post_phase_shift=0.75), "l")
        amp = seq.declare_variable("amp", dtype=float)
        idx = seq.declare_variable("idx", dtype=int)
        seq.add(Pulse.ConstantPulse(16, amp, 0.0, 0.25), "l")
        seq.target_index(idx, "l")
        seq.add(Pulse.ConstantPulse(16, amp, 0.0, 0.0), "l")
        chosen = shape["chosen"]  # qubit id -> trap id (a prefix of the declared ids)
        a = inp.real("amp", 0, 5)
        k = shape["index"]
        b = seq.build(qubits=chosen, amp=a, idx=k)
        reg = b.register
        obs = []
        declared_order = [q for q in ids if q in chosen]
        obs.append(("mappable:declared_order", list(reg.qubit_ids) == declared_order))
        td = lay.traps_dict
        for q in declared_order:
            obs.append(("mappable:qubit_on_requested_trap", bool(np.allclose(np.asarray(reg.qubits[q].as_array(), dtype=float), td[chosen[q]]))))
        sl = b._schedule["l"].slots
        pulses = [x for x in sl if l2_is_pulse(x)]
        obs.append(("mappable:phase_reference_kept", abs(float(pulses[1].type.phase) - 1.0) < 1e-9 and abs(b.current_phase_ref(first, "ground-rydberg") - 0.75) < 1e-9))
        obs.append(("mappable:index_targets_declared_order", sl[-1].targets == {declared_order[k]}))
        p = sl[-1].type
        obs.append(("mappable:value_used", facade._unwrap0(p.amplitude._value) == a))
        return obs

    return h


def kernels(tier):
    ks = [("build", dict(program=name)) for name in TEMPLATES]
    if tier != "quick":
        # every proper prefix that already uses a variable is a template of its own
        for name, P in TEMPLATES.items():
            for n in range(2, len(P["prog"])):
                if uses_variable(P["prog"][:n]):
                    ks.append(("build", dict(program=name, upto=n)))
    ids12 = ["q%d" % i for i in range(12)]
    ks.append(("mappable", dict(ids=ids12, chosen={q: i for i, q in enumerate(ids12)}, index=2)))
    ks.append(("mappable", dict(ids=ids12, chosen={q: 29 - i for i, q in enumerate(ids12[:11])}, index=10)))
    ks.append(("mappable", dict(ids=["control", "target", "ancilla"], chosen={"control": 5, "target": 0, "ancilla": 9}, index=1)))
    ks.append(("mappable", dict(ids=["b", "a", "c"], chosen={"b": 3, "a": 7}, index=0)))
    return ks


def harness(kernel, shape):
    return h_build(shape) if kernel == "build" else h_mappable(shape)
