"""C13 - which building operations are accepted follows the documented typestate.

L3 history harness: k operation codes are solver variables (concretised by
forking), each operation is issued with valid numbers on a real Sequence and
its accept/refuse outcome is compared with a small reference automaton over
the documented mode.  The automaton answers accept / refuse / unspecified;
only the first two are asserted.
"""
from __future__ import annotations

import numpy as np

from checks import l2
from symx import core, stubs
from symx.core import AND, IFF, NOT, OR

PROPERTY = "C13"
STUBS = ["operation codes are symbolic integers concretised by forking (every history of length k is a path)",
         "numeric arguments are fixed valid values so that refusals are caused by the mode alone",
         "Waveform.modulation_buffers replaced by the constant (rise_time//2, rise_time//2): only timing values depend on it"]
FLOAT_MODE = "no symbolic floats"
BOUNDS = {"quick": dict(history_length=3, devices=["virt (physical-like, EOM, DMM, SLM)", "MockDevice (reusable, XY)"], alphabet="29 (+3 placed by prefixes: modify_eom_setpoint valid/refused, add_dmm_detuning)"),
          "thorough": dict(history_length=4, devices=["virt", "MockDevice", "DigitalAnalogDevice"], alphabet="29 (+3 placed by prefixes: modify_eom_setpoint valid/refused, add_dmm_detuning)")}
OUTSIDE = ["numeric refusals", "delay/enable_eom on a local channel without target (unspecified)",
           "SLM/DMM interplay beyond the asserted cases (unspecified)", "parametrized-mode acceptance other than inspection/measure/EOM gating/name reuse"]


def setup():
    l2.setup()


def setup_concrete():
    l2.setup_concrete()


DEV = {
    "virt": dict(glob="ryd_glob", loc="ryd_loc", other="ram_loc", mw=None, reusable=False, eom=True, dmm=True, slm=True),
    "mock": dict(glob="rydberg_global", loc="rydberg_local", other="raman_local", mw="mw_global", reusable=True, eom=False, dmm=True, slm=True),
    "virt_reuse": dict(glob="ryd_glob", loc="ryd_loc", other="ram_loc", mw=None, reusable=True, eom=True, dmm=True, slm=True),
    "mock_noreuse": dict(glob="rydberg_global", loc="rydberg_local", other="raman_local", mw="mw_global", reusable=False, eom=False, dmm=True, slm=True),
    "digital": dict(glob="rydberg_global", loc="rydberg_local", other="raman_local", mw=None, reusable=False, eom=False, dmm=True, slm=True),
}

OPS = ["D_g", "D_g2", "D_gname", "D_l", "D_mw", "DMAP", "SLM", "ADD_g", "ADD_l", "ADD_mw", "TGT_l", "DLY_g",
       "EOM_on", "EOM_p", "EOM_off", "MEAS", "MEAS_xy", "VAR", "INSPECT", "ALIGN", "SHIFT", "ADD_g2", "DMAP2", "D_l2", "VAR_EOM",
       "EOM_on2", "EOM_off2", "D_l_init", "INSPECT_EST"]
# further calls, placed by prefixes / as the first free call only (they are not part of the alphabet of the free choices)
EXTRA = ["EOM_mod", "EOM_mod_bad", "ADD_dmm", "D_mw2"]
ALL = OPS + EXTRA


class Model:
    """Reference automaton over the documented mode."""

    def __init__(self, dev):
        self.d = DEV[dev]
        self.names = {}  # name -> dict(id, kind, target, eom)
        self.used = set()
        self.in_xy = False
        self.in_ising = False
        self.measured = False
        self.param = False
        self.slm = False
        self.vdecl = False
        self.dmm_n = 0
        self.bases = set()

    # returns True (accept) / False (refuse) / None (unspecified)
    def predict(self, op):
        d = self.d
        P = self.param

        def declare(name, cid, kind):
            if cid is None:
                return False
            if self.measured:
                return False
            if name in self.names:
                return False
            if kind == "mw" and self.in_ising:
                return False
            if kind != "mw" and self.in_xy:
                return False
            if not d["reusable"] and cid in self.used:
                return False
            if self.slm and not self.in_ising and kind != "mw":
                return None  # first Ising channel also declares the SLM's DMM
            return True

        def on_channel(name, need_target=False, block_eom=False):
            if name not in self.names:
                return False
            if self.measured:
                return False
            ch = self.names[name]
            if block_eom and ch["eom"]:
                return False
            if need_target and not ch["target"]:
                return None if P else False
            return True

        if op == "D_g":
            return declare("g", d["glob"], "glob")
        if op == "D_g2":
            return declare("g2", d["glob"], "glob")
        if op == "D_gname":
            return declare("g", d["other"], "loc")
        if op == "D_l":
            return declare("l", d["loc"], "loc")
        if op == "D_l2":
            return declare("l2", d["loc"], "loc")
        if op == "D_l_init":
            return declare("l", d["loc"], "loc")
        if op == "D_mw":
            return declare("mw", d["mw"], "mw")
        if op == "D_mw2":  # the microwave channel under a second name
            return declare("mw2", d["mw"], "mw")
        if op in ("DMAP", "DMAP2"):
            if self.measured:
                return False
            if self.in_xy:
                return False
            if not d["reusable"] and ("dmm_0" in self.used):
                return False
            if self.slm and not d["reusable"]:
                return None if self.in_ising else False
            return True
        if op == "SLM":
            if self.param:
                return None
            if self.slm:
                return False
            if self.measured:
                # in Ising mode the mask declares a DMM channel (and may add a pulse to it): a timeline change
                return False if self.in_ising else None
            if self.in_ising and not d["reusable"] and "dmm_0" in self.used:
                return False
            return True
        if op in ("ADD_g", "ADD_g2"):
            n = "g" if op == "ADD_g" else "g2"
            return on_channel(n, need_target=True, block_eom=True)
        if op == "ADD_l":
            return on_channel("l", need_target=True, block_eom=True)
        if op == "ADD_mw":
            return on_channel("mw")
        if op == "TGT_l":
            return on_channel("l", block_eom=True)
        if op == "DLY_g":
            r = on_channel("g")
            if r and not self.names["g"]["target"]:
                return None
            return r
        if op in ("EOM_on", "EOM_on2"):
            n = "g" if op == "EOM_on" else "g2"
            if n not in self.names or self.measured:
                return False
            if not d["eom"] or self.names[n]["kind"] != "glob":
                return False
            return not self.names[n]["eom"]
        if op == "EOM_off2":
            if "g2" not in self.names or self.measured:
                return False
            return bool(self.names["g2"]["eom"])
        if op == "EOM_p":
            if "g" not in self.names or self.measured:
                return False
            return bool(self.names["g"]["eom"])
        if op == "EOM_off":
            if "g" not in self.names or self.measured:
                return False
            return bool(self.names["g"]["eom"])
        if op == "EOM_mod":  # a new setpoint the channel can realise
            if "g" not in self.names or self.measured:
                return False
            return bool(self.names["g"]["eom"])
        if op == "EOM_mod_bad":  # a setpoint beyond the channel's maximum amplitude: refused, and (like every refused call) without effect
            return False
        if op == "ADD_dmm":
            if self.measured or not self.dmm_n:
                return False
            return True
        if op == "MEAS":
            if self.measured:
                return False
            return not self.in_xy
        if op == "MEAS_xy":
            if self.measured:
                return False
            return self.in_xy
        if op == "VAR":
            if "g" not in self.names or self.measured:
                return False
            return True
        if op == "VAR_EOM":  # first use of a variable inside an EOM pulse
            if "g" not in self.names or self.measured:
                return False
            return bool(self.names["g"]["eom"])
        if op == "INSPECT":
            return not self.param
        if op == "INSPECT_EST":  # estimate_added_delay of a concrete pulse: an inspection call like any other
            if self.param:
                return False
            if "g" not in self.names:
                return False
            if not self.names["g"]["target"] or self.names["g"]["eom"] or self.measured:
                return None
            return True
        if op == "ALIGN":
            if self.measured:
                return False
            if "g" not in self.names or "l" not in self.names:
                return False
            if not self.names["l"]["target"] or not self.names["g"]["target"]:
                return None  # (the name "g" may have been given to a local channel that has no target yet)
            return True
        if op == "SHIFT":
            if "ground-rydberg" not in self.bases:
                return False
            return True
        raise ValueError(op)

    def apply(self, op):
        d = self.d

        def declare(name, cid, kind):
            self.names[name] = dict(id=cid, kind=kind, target=(kind in ("glob", "mw")), eom=False,
                                    basis=("digital" if cid == d["other"] else ("XY" if kind == "mw" else "ground-rydberg")))
            self.used.add(cid)
            self.bases.add(self.names[name]["basis"])
            if kind == "mw":
                self.in_xy = True
            else:
                self.in_ising = True

        if op == "D_g":
            declare("g", d["glob"], "glob")
        elif op == "D_g2":
            declare("g2", d["glob"], "glob")
        elif op == "D_gname":
            declare("g", d["other"], "loc")
        elif op == "D_l":
            declare("l", d["loc"], "loc")
        elif op == "D_l2":
            declare("l2", d["loc"], "loc")
        elif op == "D_l_init":
            declare("l", d["loc"], "loc")
            self.names["l"]["target"] = True
        elif op == "D_mw":
            declare("mw", d["mw"], "mw")
        elif op == "D_mw2":
            declare("mw2", d["mw"], "mw")
        elif op in ("DMAP", "DMAP2"):
            self.in_ising = True
            self.used.add("dmm_0")
            self.dmm_n += 1
            if not self.param:
                self.bases.add("ground-rydberg")
        elif op == "SLM":
            self.slm = True
            if self.in_ising:
                self.used.add("dmm_0")
                self.bases.add("ground-rydberg")
        elif op in ("ADD_g", "ADD_g2", "ADD_l", "ADD_mw", "EOM_p"):
            n = {"ADD_g": "g", "ADD_g2": "g2", "ADD_l": "l", "ADD_mw": "mw", "EOM_p": "g"}[op]
            if not self.param:
                self.names[n]["pulse"] = True
        elif op == "TGT_l":
            self.names["l"]["target"] = True
        elif op == "EOM_on":
            self.names["g"]["eom"] = True
        elif op == "EOM_off":
            self.names["g"]["eom"] = False
        elif op == "EOM_on2":
            self.names["g2"]["eom"] = True
        elif op == "EOM_off2":
            self.names["g2"]["eom"] = False
        elif op in ("MEAS", "MEAS_xy"):
            self.measured = True
        elif op in ("VAR", "VAR_EOM"):
            self.param = True


def do_op(seq, op, dev, st):
    from pulser.pulse import Pulse

    d = DEV[dev]
    qs = list(seq.register.qubit_ids)
    p16 = Pulse.ConstantPulse(16, 1.0, 0.0, 0.0)
    if op == "D_g":
        seq.declare_channel("g", d["glob"])
    elif op == "D_g2":
        seq.declare_channel("g2", d["glob"])
    elif op == "D_gname":
        seq.declare_channel("g", d["other"])
    elif op == "D_l":
        seq.declare_channel("l", d["loc"])
    elif op == "D_l2":
        seq.declare_channel("l2", d["loc"])
    elif op == "D_l_init":
        seq.declare_channel("l", d["loc"], initial_target=qs[0])
    elif op == "D_mw":
        seq.declare_channel("mw", d["mw"] or "mw_global")
    elif op == "D_mw2":
        seq.declare_channel("mw2", d["mw"] or "mw_global")
    elif op in ("DMAP", "DMAP2"):
        dm = seq.register.define_detuning_map({qs[0]: 1.0, qs[1]: 0.5})
        seq.config_detuning_map(dm, "dmm_0")
    elif op == "SLM":
        seq.config_slm_mask([qs[0]])
    elif op == "ADD_g":
        seq.add(p16, "g")
    elif op == "ADD_g2":
        seq.add(p16, "g2")
    elif op == "ADD_l":
        seq.add(p16, "l")
    elif op == "ADD_mw":
        seq.add(p16, "mw")
    elif op == "TGT_l":
        seq.target(qs[0], "l")
    elif op == "DLY_g":
        seq.delay(16, "g")
    elif op == "EOM_on":
        seq.enable_eom_mode("g", 1.0, 0.0)
    elif op == "EOM_on2":
        seq.enable_eom_mode("g2", 1.0, 0.0)
    elif op == "EOM_off2":
        seq.disable_eom_mode("g2")
    elif op == "EOM_p":
        seq.add_eom_pulse("g", 16, 0.0)
    elif op == "EOM_off":
        seq.disable_eom_mode("g")
    elif op == "EOM_mod":
        seq.modify_eom_setpoint("g", 2.0, 0.0)
    elif op == "EOM_mod_bad":
        seq.modify_eom_setpoint("g", 1.0e4, 0.0)
    elif op == "ADD_dmm":
        from pulser.waveforms import ConstantWaveform

        seq.add_dmm_detuning(ConstantWaveform(16, -1.0), "dmm_0")
    elif op == "MEAS":
        seq.measure("ground-rydberg")
    elif op == "MEAS_xy":
        seq.measure("XY")
    elif op == "VAR":
        if "v" not in st:
            st["v"] = seq.declare_variable("v", dtype=int)
        seq.delay(st["v"], "g")
    elif op == "VAR_EOM":
        if "v" not in st:
            st["v"] = seq.declare_variable("v", dtype=int)
        seq.add_eom_pulse("g", st["v"], 0.0)
    elif op == "INSPECT":
        seq.get_duration()
    elif op == "INSPECT_EST":
        seq.estimate_added_delay(p16, "g")
    elif op == "ALIGN":
        seq.align("g", "l")
    elif op == "SHIFT":
        seq.phase_shift(0.5, *qs, basis="ground-rydberg")
    else:
        raise ValueError(op)


def h_history(shape):
    dev = shape["device"]
    k = shape["k"]
    first = shape.get("first")

    def h(inp):
        stubs.bind(inp, fixed=True)  # timing is irrelevant for the typestate: constant fall times keep timelines concrete
        seq = l2.new_seq(dev, shape.get("reg", "reg3"))
        m = Model(dev)
        st = {}
        obs = []
        hist = []
        prefix = [ALL.index(x) for x in shape.get("prefix", [])]
        for i in range(len(prefix) + k):
            if i < len(prefix):
                code = prefix[i]
            elif i == len(prefix) and first is not None:
                code = first
            else:
                code = inp.choice("op%d" % i, len(OPS))
            op = ALL[code]
            hist.append(op)
            pred = m.predict(op)
            try:
                do_op(seq, op, dev, st)
                ok = True
            except l2.REFUSALS:
                ok = False
            if pred is not None:
                obs.append(("typestate:%s" % op, ok == pred))
                inp.publish("measured_then_variable@typestate:%s" % op, bool(m.measured and op in ("VAR", "VAR_EOM") and not m.param))
                inp.publish("slm_mask_after_measurement@typestate:%s" % op, bool(op == "SLM" and m.measured and m.in_ising and not m.param))
                globs = [v for v in m.names.values() if v["kind"] == "glob"]
                inp.publish("slm_with_an_empty_and_a_used_global_channel@typestate:%s" % op, bool(
                    op == "SLM" and m.in_ising and any(v.get("pulse") for v in globs) and any(not v.get("pulse") for v in globs)))
            if m.measured and op in ("VAR", "VAR_EOM") and ok:
                return obs  # finding F11: the model stops tracking here
            if m.measured and op == "SLM" and ok:
                return obs  # finding F10: the model stops tracking here
            if ok:
                m.apply(op)
            elif pred is None:
                return obs  # unspecified and refused: state model no longer tracked
            if pred is None and ok:
                return obs
            # observable state agrees with the automaton
            obs.append(("state:is_parametrized", seq.is_parametrized() == m.param))
            if not m.param:
                obs.append(("state:is_measured", seq.is_measured() == m.measured))
            if "g" in m.names and m.names["g"]["kind"] == "glob":
                obs.append(("state:is_in_eom_mode", seq.is_in_eom_mode("g") == m.names["g"]["eom"]))
            if not m.param:
                av = set(seq.available_channels)
                if not DEV[dev]["reusable"]:
                    for cid in m.used:
                        obs.append(("state:declared_id_not_available", cid not in av))
                if m.in_xy:
                    obs.append(("state:xy_excludes_others", all(c.startswith("mw") or c.startswith("dmm") for c in av)))
                if m.in_ising and DEV[dev]["mw"]:
                    obs.append(("state:ising_excludes_mw", DEV[dev]["mw"] not in av))
        return obs

    return h


def kernels(tier):
    quick = tier == "quick"
    ks = []
    for dev in (["virt", "mock"] if quick else ["virt", "mock", "digital"]):
        for first in range(len(OPS)):
            ks.append(("history", dict(device=dev, k=3 if quick else 4, first=first)))
        g_ok = ["D_g"]
        for prefix in (["D_g", "VAR"], ["D_g", "D_l", "TGT_l"], ["D_g", "EOM_on"] if dev == "virt" else ["D_g", "ADD_g"],
                       ["D_g", "SLM"], ["SLM", "D_g"], ["D_g", "DMAP", "VAR"]):
            for first in range(len(OPS)):
                ks.append(("history", dict(device=dev, k=2 if quick else 3, first=first, prefix=prefix)))
    # a local channel declared with its initial target, on registers with string ids and with integer ids (the first id is 0)
    for dev in ("virt", "mock"):
        for reg in ("reg3", "regint"):
            for prefix in (["D_g", "D_l_init"], ["D_g", "VAR", "D_l_init"]):
                for first in range(len(OPS)):
                    ks.append(("history", dict(device=dev, k=1 if quick else 2, first=first, prefix=prefix, reg=reg)))
    # two EOM-capable channels (reusable device): the mode of one never depends on the other, parametrized or not
    for prefix in (["D_g", "D_g2", "EOM_on"], ["D_g", "D_g2", "VAR", "EOM_on"], ["D_g", "D_g2", "EOM_on", "VAR_EOM", "EOM_on2"],
                   ["D_g", "D_g2", "VAR", "EOM_on2", "EOM_on", "EOM_off2"]):
        for first in range(len(OPS)):
            ks.append(("history", dict(device="virt_reuse", k=1 if quick else 2, first=first, prefix=prefix)))
    # calls after the measurement of a PARAMETRIZED sequence (no timeline yet: every call is only recorded), a refused / accepted
    # change of the EOM setpoint in the middle of an EOM block, pulses on the DMM
    for dev, prefix in (("virt", ["D_g", "EOM_on", "VAR_EOM", "MEAS"]), ("virt", ["D_g", "VAR", "MEAS"]), ("virt", ["D_g", "DMAP", "VAR", "MEAS"]),
                        ("mock", ["D_g", "DMAP", "VAR", "MEAS"]), ("virt", ["D_g", "DMAP", "MEAS"]), ("virt", ["D_g", "DMAP"]),
                        ("virt", ["D_g", "EOM_on", "EOM_mod_bad"]), ("virt", ["D_g", "EOM_on", "EOM_p", "EOM_mod_bad"]),
                        ("virt", ["D_g", "EOM_on", "EOM_p", "EOM_mod"]), ("virt", ["D_g", "VAR", "EOM_on", "EOM_mod_bad"]),
                        ("virt", ["D_g", "EOM_on", "VAR_EOM", "EOM_mod"])):
        for first in range(len(ALL)):
            ks.append(("history", dict(device=dev, k=1 if quick else 2, first=first, prefix=prefix)))
    # XY mode on a device WITHOUT reusable channels ("each channel can be declared once" holds for the microwave channel too)
    for prefix in ([], ["D_mw"], ["D_g"], ["D_mw", "ADD_mw"]):
        for first in range(len(ALL)):
            ks.append(("history", dict(device="mock_noreuse", k=2, first=first, prefix=prefix)))
    return ks


def harness(kernel, shape):
    return h_history(shape)
