"""C17 - devices, registers, layouts, noise models round-trip; no shared state.

K1 noise    NoiseModel: active types = exactly the types with a non-zero
            parameter; validation accepts iff documented ranges; abstract-repr
            round trip (real schema validation) preserves every field
K2 device   VirtualDevice / Device with EOM, DMM, symbolic channel fields and
            optional fields present/absent: to_abstract_repr -> real schema ->
            from_abstract_repr, decoded == original and field-wise equal
   reg      Register / Register3D (+- layout), RegisterLayout (slug),
            DetuningMap round trips with symbolic coordinates / weights
K3 alias    decoding / constructing twice gives independent objects
Out: EmulationConfig/Results with QuTiP states, SimConfig (pulser_simulation
     imports QuTiP; covered only for the parameter mapping).
"""
from __future__ import annotations

import dataclasses
import itertools

import numpy as np

from checks import l2
from symx import core, facade, jsonfacade, stubs
from symx.core import AND, IFF, IMPLIES, ITE, NOT, OR, is_sym

PROPERTY = "C17"
TWO_PI = 2 * np.pi
STUBS = [
    "token JSON facade (see C04): real encoder / real jsonschema validation on a witness document / real decoder",
    "numeric fields are symbolic (reals, or ints where the schema wants integers); field-presence patterns are enumerated",
]
FLOAT_MODE = "R-mode exact reals / integers"
BOUNDS = {"quick": dict(noise_param_subsets="all 1- and 2-subsets of 9 numeric parameters", device_shapes=8),
          "thorough": dict(noise_param_subsets="same + 3-subsets", device_shapes=12)}
OUTSIDE = ["QuTiP-backed State / Operator classes and Results holding them (Results with numeric values are covered; EmulationConfig at representation level with StateRepr)", "the uK <-> K temperature conversion of SimConfig (float round-off)",
           "aliasing is decided by identity checks and mutation, not by the solver"]


def setup():
    l2.setup()
    jsonfacade.install()
    import pulser.json.abstract_repr.deserializer as des
    import pulser.json.abstract_repr.serializer as ser
    import pulser.noise_model as nm
    import pulser.register.register_layout as rl
    import pulser.register.base_register as br
    import pulser.register.register as rg

    import pulser_simulation.simconfig as sc

    class _Math:
        """math with isinf / isnan on proxies (an exact real is finite)."""

        def __getattr__(self, n):
            import math

            return getattr(math, n)

        @staticmethod
        def isinf(x):
            import math

            return False if core.is_sym(x) else math.isinf(x)

        @staticmethod
        def isnan(x):
            import math

            return False if core.is_sym(x) else math.isnan(x)

    sc.math = _Math()

    facade.install(extra_np=(des, ser, nm, rl, br, rg, sc), extra_float=(nm, des, sc), extra_int=(nm, des, sc))
    core.HASH_ZERO[0] = True


def setup_concrete():
    l2.setup_concrete()


NOISE_PARAMS = {
    "state_prep_error": ("prob", "SPAM"), "p_false_pos": ("prob", "SPAM"), "p_false_neg": ("prob", "SPAM"),
    "temperature": ("pos", "doppler"), "amp_sigma": ("prob", "amplitude"), "relaxation_rate": ("pos", "relaxation"),
    "dephasing_rate": ("pos", "dephasing"), "hyperfine_dephasing_rate": ("pos", "dephasing"), "depolarizing_rate": ("pos", "depolarizing"),
}


def h_noise(shape):
    def h(inp):
        jsonfacade.reset()
        from pulser.noise_model import NoiseModel

        given = shape["params"]
        vals = {p: inp.real(p, -1, 2) for p in given}
        kw = dict(vals)
        needs_runs = AND(False)
        runs = shape.get("runs")
        if runs:
            kw.update(runs=15, samples_per_run=5)
        if shape.get("eff"):
            # effective-noise channels: concrete operators, symbolic rates (two channels may well have the same rate)
            ops = [np.array([[0.0, 1.0], [1.0, 0.0]]), np.array([[1.0, 0.0], [0.0, -1.0]]), np.array([[0.0, -1j], [1j, 0.0]])][:shape["eff"]]
            kw.update(eff_noise_opers=ops, eff_noise_rates=[inp.real("eff_rate%d" % i, 0.001, 1) for i in range(shape["eff"])])
        try:
            nm = NoiseModel(**kw)
            ok = True
        except (ValueError, TypeError):
            ok = False
        # reference: validity and active types
        valid_terms = []
        active = {}
        for p, v in vals.items():
            kind, typ = NOISE_PARAMS[p]
            valid_terms.append(AND(v >= 0, v <= 1) if kind == "prob" else v >= 0)
            active[typ] = OR(active.get(typ, False), NOT(v == 0))
        # runs/samples_per_run are required when doppler, non-zero amp_sigma or non-zero state_prep_error is active
        need = []
        if "temperature" in vals:
            need.append(NOT(vals["temperature"] == 0))
        if "amp_sigma" in vals:
            need.append(NOT(vals["amp_sigma"] == 0))
        if "state_prep_error" in vals:
            need.append(NOT(vals["state_prep_error"] == 0))
        need_runs = OR(*need) if need else False
        obs = []
        if runs:
            obs.append(("k1:accept_iff_in_documented_ranges", IFF(ok, AND(*valid_terms))))
        else:
            obs.append(("k1:accept_iff_in_documented_ranges", IFF(ok, AND(NOT(need_runs), *valid_terms))))
        if not ok:
            return obs
        for typ in set(t for _, t in NOISE_PARAMS.values()):
            obs.append(("k1:active_types_exactly_nonzero_params", IFF(typ in nm.noise_types, active.get(typ, False))))
        s = nm.to_abstract_repr()
        nm2 = NoiseModel.from_abstract_repr(s)
        obs.append(("k1:roundtrip_noise_types", tuple(nm2.noise_types) == tuple(nm.noise_types)))
        for f in dataclasses.fields(nm):
            a, b = getattr(nm, f.name), getattr(nm2, f.name)
            label = "k1:roundtrip_field:" + f.name
            obs.append((label, l2.snap_equal(a, b)))
            inp.publish("runs_not_relevant@" + label, NOT(need_runs))
        return obs

    return h


def h_simconfig(shape):
    """NoiseModel -> SimConfig -> NoiseModel keeps the active noise types and every relevant parameter."""

    def h(inp):
        from pulser.noise_model import NoiseModel
        from pulser_simulation import SimConfig

        vals = {p: inp.real(p, 0, 1) for p in shape["params"]}
        kw = dict(vals)
        if any(NOISE_PARAMS[p][1] in ("SPAM", "amplitude", "doppler") for p in vals):
            kw.update(runs=15, samples_per_run=5)
        if shape.get("waist"):
            kw.update(laser_waist=inp.real("laser_waist", 1, 1000), runs=15, samples_per_run=5)
        if shape.get("eff"):
            import numpy as _np

            ops = [_np.array([[0.0, 1.0], [1.0, 0.0]]), _np.array([[1.0, 0.0], [0.0, -1.0]]), _np.array([[0.0, -1j], [1j, 0.0]])][:shape["eff"]]
            rates = [inp.real("eff_rate%d" % i, 0, 1) for i in range(shape["eff"])]
            kw.update(eff_noise_opers=ops, eff_noise_rates=rates)
        try:
            nm = NoiseModel(**kw)
        except (ValueError, TypeError):
            raise core.Infeasible()
        try:
            cfg = SimConfig.from_noise_model(nm)
            nm2 = cfg.to_noise_model()
        except (ValueError, TypeError, NotImplementedError):
            return [("k1b:conversion_completes", False)]
        obs = [("k1b:same_noise_types", set(nm2.noise_types) == set(nm.noise_types))]
        relevant = set(NoiseModel._find_relevant_params(nm.noise_types, nm.state_prep_error, nm.amp_sigma, nm.laser_waist))
        for f in dataclasses.fields(nm):
            if f.name in ("noise_types", "runs", "samples_per_run", "with_leakage") or f.name not in relevant:
                continue
            a, b = getattr(nm, f.name), getattr(nm2, f.name)
            if f.name == "eff_noise_opers":
                import numpy as _np

                obs.append(("k1b:relevant_param_kept:" + f.name, len(a) == len(b) and all(_np.allclose(_np.asarray(x, dtype=complex), _np.asarray(y, dtype=complex)) for x, y in zip(a, b))))
                continue
            obs.append(("k1b:relevant_param_kept:" + f.name, l2.snap_equal(a, b)))
        return obs

    return h


def mk_channels(inp, shape):
    from pulser.channels import DMM, Raman, Rydberg
    from pulser.channels.eom import RydbergBeam, RydbergEOM

    opt = shape["opt"]  # which optional fields are non-default
    kw = dict(clock_period=inp.int("clock", 1, 16), min_duration=inp.int("mind", 1, 64), max_duration=inp.int("maxd", 64, 10**6))
    if "mod" in opt:
        kw["mod_bandwidth"] = inp.real("bw", 1, 100)
    if "pjt" in opt:
        kw["custom_phase_jump_time"] = inp.int("pjt", 0, 1000)
    if "minavg" in opt:
        kw["min_avg_amp"] = inp.real("minavg", 0, 1)
    if "propdir" in opt:
        kw["propagation_dir"] = (0.0, 1.0, 0.0)
    eom = None
    if "eom" in opt:
        eom = RydbergEOM(limiting_beam=RydbergBeam.RED, max_limiting_amp=inp.real("eom_amp", 1, 300), intermediate_detuning=inp.real("eom_det", 100, 9000),
                         mod_bandwidth=inp.real("eom_bw", 1, 100), controlled_beams=(RydbergBeam.BLUE, RydbergBeam.RED) if "eom2" in opt else (RydbergBeam.BLUE,),
                         **(dict(custom_buffer_time=inp.int("eom_buf", 1, 1000)) if "eombuf" in opt else {}),
                         **(dict(multiple_beam_control=False, blue_shift_coeff=inp.real("cb", 0.5, 3), red_shift_coeff=inp.real("cr", 0.5, 3)) if "eomopt" in opt else {}))
        kw.setdefault("mod_bandwidth", 5.0)
    g = Rydberg.Global(inp.real("g_maxdet", 1, 1000), inp.real("g_maxamp", 1, 100), eom_config=eom, **kw)
    kwl = {k: v for k, v in kw.items() if k != "propagation_dir"}
    l = Raman.Local(inp.real("l_maxdet", 1, 1000), inp.real("l_maxamp", 1, 100), min_retarget_interval=inp.int("retarget", 0, 1000),
                    fixed_retarget_t=inp.int("fixedt", 0, 1000), max_targets=(inp.int("maxt", 1, 10) if "maxt" in opt else None), **kwl)
    dmm = DMM(bottom_detuning=-inp.real("bottom", 1, 1000), clock_period=kw["clock_period"], min_duration=kw["min_duration"], max_duration=kw["max_duration"],
              **(dict(total_bottom_detuning=-inp.real("total", 1000, 100000)) if "total" in opt else {}),
              **(dict(mod_bandwidth=kw["mod_bandwidth"]) if "mod" in opt else {}))
    return g, l, dmm


def fields_equal(a, b, path=""):
    """Field-wise equality of two dataclass trees -> list of terms."""
    if dataclasses.is_dataclass(a) and dataclasses.is_dataclass(b):
        if type(a).__name__ != type(b).__name__:
            return [False]
        out = []
        for f in dataclasses.fields(a):
            out += fields_equal(getattr(a, f.name), getattr(b, f.name), path + "." + f.name)
        return out
    if isinstance(a, (tuple, list)) and isinstance(b, (tuple, list)):
        if len(a) != len(b):
            return [False]
        out = []
        for x, y in zip(a, b):
            out += fields_equal(x, y, path)
        return out
    if isinstance(a, dict) and isinstance(b, dict):
        if set(a) != set(b):
            return [False]
        out = []
        for k in a:
            out += fields_equal(a[k], b[k], path)
        return out
    return l2._eq(a, b)


def h_device(shape):
    def h(inp):
        jsonfacade.reset()
        from pulser.devices import Device, VirtualDevice

        try:
            g, l, dmm = mk_channels(inp, shape)
            common = dict(name="dev", dimensions=2, rydberg_level=70, min_atom_distance=inp.real("mindist", 0, 10),
                          channel_objects=(g, l), channel_ids=("glob", "loc"), dmm_objects=(dmm,) if "dmm" in shape["opt"] else (),
                          supports_slm_mask=("dmm" in shape["opt"]))
            if "dmm12" in shape["opt"]:
                # many DMMs, all different: their order is their identity (dmm_0 ... dmm_11)
                import dataclasses as _dc

                common["dmm_objects"] = tuple(_dc.replace(dmm, bottom_detuning=-float(10 + 7 * i)) for i in range(12))
                common["supports_slm_mask"] = True
            if "seqdur" in shape["opt"]:
                common["max_sequence_duration"] = inp.int("seqdur", 1, 10**6)
            if "runs" in shape["opt"]:
                common["max_runs"] = inp.int("maxruns", 1, 10**6)
            if "filling" in shape["opt"]:
                common["max_layout_filling"] = inp.real("filling", 0.1, 1)
                common["min_layout_traps"] = inp.int("mintraps", 1, 50)
            if shape["virtual"]:
                dev = VirtualDevice(max_atom_num=(inp.int("maxatoms", 1, 100) if "atoms" in shape["opt"] else None),
                                    max_radial_distance=(inp.int("radius", 1, 100) if "radius" in shape["opt"] else None),
                                    reusable_channels=("reuse" in shape["opt"]), **common)
            else:
                dev = Device(max_atom_num=inp.int("maxatoms", 1, 100), max_radial_distance=inp.int("radius", 1, 100), **common)
        except (ValueError, TypeError, NotImplementedError):
            raise core.Infeasible()
        s = dev.to_abstract_repr()  # real schema validation inside
        dev2 = type(dev).from_abstract_repr(s)
        obs = [("k2:device_type", type(dev2) is type(dev))]
        for f in dataclasses.fields(dev):
            obs.append(("k2:device_field:" + f.name, AND(*fields_equal(getattr(dev, f.name), getattr(dev2, f.name)))))
        obs.append(("k2:device_channel_ids", tuple(dev2.channel_ids) == tuple(dev.channel_ids) and set(dev2.dmm_channels) == set(dev.dmm_channels)))
        # aliasing: two decodes are independent objects
        dev3 = type(dev).from_abstract_repr(s)
        obs.append(("k3:decoded_twice_distinct_objects", dev3 is not dev2))
        if shape["virtual"]:
            lvl2 = dev2.rydberg_level
            dev3.change_rydberg_level(61)
            obs.append(("k3:mutating_one_leaves_other", dev2.rydberg_level == lvl2 and dev.rydberg_level == 70))
        return obs

    return h


def h_register(shape):
    def h(inp):
        jsonfacade.reset()
        from pulser import Register, Register3D
        from pulser.register.register_layout import RegisterLayout
        from pulser.register.weight_maps import DetuningMap

        dims = shape["dims"]
        n = shape["n"]
        P = [[inp.fix("c%d_%d" % (i, k), 6, -40, 40) for k in range(dims)] for i in range(n)]
        # distinct points, well separated (registers are not device-validated here)
        for a, b in itertools.combinations(P, 2):
            inp.assume(OR(*[abs(x - y) >= 1 for x, y in zip(a, b)]))
        obs = []
        kind = shape["kind"]
        if kind == "layout":
            lay = RegisterLayout(P, slug=shape.get("slug"))
            s = lay.to_abstract_repr()
            lay2 = RegisterLayout.from_abstract_repr(s)
            A, B = np.asarray(lay.sorted_coords), np.asarray(lay2.sorted_coords)
            obs.append(("k2:layout_coords", AND(*[l2._eq(x, y)[0] for x, y in zip(A.flat, B.flat)]) if A.shape == B.shape else False))
            obs.append(("k2:layout_slug", lay2.slug == lay.slug))
            # same coordinates, other slug, decoded while the first is alive
            other = RegisterLayout(P, slug="other_slug")
            o2 = RegisterLayout.from_abstract_repr(other.to_abstract_repr())
            lay3 = RegisterLayout.from_abstract_repr(s)
            obs.append(("k3:layout_decode_independent", o2.slug == "other_slug" and lay3.slug == lay.slug and lay2.slug == lay.slug and o2 is not lay2))
            # == / static_hash are SHA-256 over bytes (outside the solver): one concrete layout whose rounding leaves a -0.0
            cl = RegisterLayout([[-1e-9, 0.0] + [0.0] * (dims - 2), [5.0, -2e-8] + [1.0] * (dims - 2), [0.0, 5.0] + [2.0] * (dims - 2)], slug=shape.get("slug"))
            cl2 = RegisterLayout.from_abstract_repr(cl.to_abstract_repr())
            obs.append(("k2:layout_equal_and_same_hash_concrete", cl2 == cl and cl2.static_hash() == cl.static_hash()))
        elif kind == "register":
            cls = Register3D if dims == 3 else Register
            reg = cls({"q%d" % i: P[i] for i in range(n)})
            s = reg.to_abstract_repr()
            reg2 = cls.from_abstract_repr(s)
            obs.append(("k2:register_ids", list(reg2.qubit_ids) == list(reg.qubit_ids)))
            for q in reg.qubit_ids:
                a = list(np.asarray(reg.qubits[q].as_array(detach=True)).flat)
                b = list(np.asarray(reg2.qubits[q].as_array(detach=True)).flat)
                obs.append(("k2:register_coords", AND(*[l2._eq(x, y)[0] for x, y in zip(a, b)])))
        elif kind == "register_layout":
            lay = RegisterLayout(P, slug=shape.get("slug"))
            ids = list(range(n - 1))[::-1]
            reg = lay.define_register(*ids, qubit_ids=["a%d" % i for i in ids])
            s = reg.to_abstract_repr()
            reg2 = type(reg).from_abstract_repr(s)
            obs.append(("k2:register_ids", list(reg2.qubit_ids) == list(reg.qubit_ids)))
            obs.append(("k2:register_layout_kept", reg2.layout is not None and reg2.layout.slug == lay.slug and tuple(reg2._layout_info.trap_ids) == tuple(reg._layout_info.trap_ids)))
            for q in reg.qubit_ids:
                a = list(np.asarray(reg.qubits[q].as_array(detach=True)).flat)
                b = list(np.asarray(reg2.qubits[q].as_array(detach=True)).flat)
                obs.append(("k2:register_coords", AND(*[l2._eq(x, y)[0] for x, y in zip(a, b)])))
        elif kind == "detmap":
            W = [inp.real("w%d" % i, 0, 1) for i in range(n)]
            dm = DetuningMap(P, W, slug=shape.get("slug"))
            s = real_dumps(dm)
            from pulser.json.abstract_repr.deserializer import _deserialize_det_map

            dm2 = _deserialize_det_map(jsonfacade.JSONFacade().loads(s))
            A, B = np.asarray(dm.sorted_coords), np.asarray(dm2.sorted_coords)
            obs.append(("k2:detmap_coords", AND(*[l2._eq(x, y)[0] for x, y in zip(A.flat, B.flat)])))
            obs.append(("k2:detmap_weights", AND(*[l2._eq(x, y)[0] for x, y in zip(list(dm.sorted_weights), list(dm2.sorted_weights))])))
            obs.append(("k2:detmap_slug", dm2.slug == dm.slug))
        return obs

    return h


def real_dumps(obj):
    from pulser.json.abstract_repr.serializer import AbstractReprEncoder

    return jsonfacade.JSONFacade().dumps(obj, cls=AbstractReprEncoder)


def kernels(tier):
    quick = tier == "quick"
    ks = []
    names = list(NOISE_PARAMS)
    subsets = [[p] for p in names] + [list(c) for c in itertools.combinations(names, 2)]
    if not quick:
        subsets += [list(c) for c in itertools.combinations(names, 3)][::4]
    for sub in subsets:
        ks.append(("noise", dict(params=sub, runs=True)))
    for sub in ([["temperature"], ["amp_sigma"], ["state_prep_error"], ["p_false_pos"], ["relaxation_rate", "amp_sigma"]]):
        ks.append(("noise", dict(params=sub, runs=False)))
    for n_eff in (1, 2, 3):
        ks.append(("noise", dict(params=["relaxation_rate"] if n_eff == 2 else [], runs=True, eff=n_eff)))
    # NoiseModel <-> SimConfig (temperature left out: the uK <-> K conversion is float round-off, outside the claim)
    sc_names = [p for p in names if p != "temperature"]
    for sub in [[p] for p in sc_names] + [list(c) for c in itertools.combinations(sc_names, 2)][::(3 if quick else 1)]:
        ks.append(("simconfig", dict(params=sub)))
    for n_eff in (1, 2, 3):
        ks.append(("simconfig", dict(params=[], eff=n_eff)))
    ks.append(("simconfig", dict(params=["dephasing_rate"], eff=2)))
    ks.append(("simconfig", dict(params=["amp_sigma"], waist=True)))
    ks.append(("simconfig", dict(params=["amp_sigma", "p_false_pos"], waist=True)))
    dev_opts = [[], ["mod"], ["mod", "pjt", "minavg"], ["eom"], ["eom", "eombuf", "eom2", "eomopt"], ["dmm"], ["dmm", "total", "mod"],
                ["maxt", "seqdur", "runs", "filling"], ["atoms", "radius", "reuse", "propdir"], ["eom", "eomopt"], ["eom", "eom2"], ["dmm", "dmm12"]]
    for opt in dev_opts:
        ks.append(("device", dict(opt=opt, virtual=True)))
    for opt in ([], ["eom", "eombuf"], ["dmm", "total", "seqdur", "runs", "maxt", "mod"]):
        ks.append(("device", dict(opt=opt + ["maxt"] if "maxt" not in opt else opt, virtual=False)))
    for kind in ("layout", "register", "register_layout", "detmap"):
        for dims in ((2, 3) if kind in ("layout", "register") else (2,)):
            for slug in (None, "my_slug"):
                if kind == "register" and slug:
                    continue
                ks.append(("register", dict(kind=kind, dims=dims, n=3, slug=slug)))
    return ks


def harness(kernel, shape):
    return {"noise": h_noise, "simconfig": h_simconfig, "device": h_device, "register": h_register}[kernel](shape)


# ---- K3 (partial): EmulationConfig round trip (representation level) --------

_k17, _h17, _setup17 = kernels, harness, setup


def setup():
    _setup17()
    import pulser.backend.config as bc
    import pulser.backend.observable as bo
    import pulser.backend.default_observables as bd
    import pulser.json.abstract_repr.backend as jb

    facade.install(extra_np=(bc, bo, bd, jb), extra_float=(bc, bo))


def to_plain(x):
    """Structural rendering of an abstract-repr tree (proxies kept)."""
    import pulser.math as pm

    from pulser.backend.observable import Observable

    if isinstance(x, Observable):
        # the object's own attributes (not its serialised form): a field lost on encode *and* defaulted on decode shows
        d = {k: to_plain(v) for k, v in vars(x).items() if k not in ("_uuid", "uuid")}
        d["__class__"] = type(x).__name__
        return d
    if hasattr(x, "_to_abstract_repr") and not isinstance(x, (dict, list, tuple)):
        return to_plain(x._to_abstract_repr())
    if isinstance(x, dict):
        return {k: to_plain(v) for k, v in x.items()}
    if isinstance(x, (list, tuple)):
        return [to_plain(v) for v in x]
    if isinstance(x, (set, frozenset)):  # (JSON has no sets: the qudit indices of an operator term come back as a list)
        return sorted(to_plain(v) for v in x)
    if isinstance(x, np.ndarray):
        return [to_plain(v) for v in x.tolist()]
    return core._np_item(x)


def h_config(shape):
    def h(inp):
        jsonfacade.reset()
        from pulser.backend import (BitStrings, CorrelationMatrix, EmulationConfig, Energy, EnergySecondMoment, EnergyVariance,
                                    Expectation, Fidelity, Occupation)
        from pulser.backend.operator import OperatorRepr
        from pulser.backend.state import StateRepr
        from pulser.noise_model import NoiseModel

        def times(tag, n):
            ts = [inp.real("%s_t%d" % (tag, i), 0, 1) for i in range(n)]
            for a, b in zip(ts, ts[1:]):
                inp.assume(a < b)
            return ts

        obs_list = []
        for i, kind in enumerate(shape["obs"]):
            et = times("o%d" % i, 2) if shape["times"][i] else None
            kw = dict(evaluation_times=et, tag_suffix=("s%d" % i if shape.get("suffix") else None))
            if kind == "bitstrings":
                obs_list.append(BitStrings(num_shots=shape.get("shots", 100), **kw))
            elif kind == "occupation":
                obs_list.append(Occupation(**kw))
            elif kind == "correlation":
                obs_list.append(CorrelationMatrix(**kw))
            elif kind == "energy":
                obs_list.append(Energy(**kw))
            elif kind == "variance":
                obs_list.append(EnergyVariance(**kw))
            elif kind == "second_moment":
                obs_list.append(EnergySecondMoment(**kw))
            elif kind == "expectation":
                op_ = OperatorRepr.from_operator_repr(eigenstates=("r", "g"), n_qudits=2, operations=[(1.0, [({"rr": 1.0}, {0})])])
                obs_list.append(Expectation(op_, **kw))
            elif kind == "fidelity":
                st = StateRepr.from_state_amplitudes(eigenstates=("r", "g"), amplitudes={"rr": 1.0, "gg": 1.0})
                obs_list.append(Fidelity(st, **kw))
        cfg_kw = dict(observables=obs_list, with_modulation=shape.get("mod", False))
        if shape.get("default_times") == "sym":
            cfg_kw["default_evaluation_times"] = times("d", 3)
        elif shape.get("default_times") == "full":
            cfg_kw["default_evaluation_times"] = "Full"
        if shape.get("noise") == "eff":
            cfg_kw["noise_model"] = NoiseModel(eff_noise_rates=(inp.real("eff_rate", 0.001, 1),), eff_noise_opers=(np.array([[0.0, 1.0], [1.0, 0.0]]),))
        elif shape.get("noise"):
            cfg_kw["noise_model"] = NoiseModel(relaxation_rate=inp.real("relax", 0, 1), dephasing_rate=inp.real("deph", 0, 1))
        if shape.get("interaction"):
            x = inp.real("U01", -10, 10)
            cfg_kw["interaction_matrix"] = [[0.0, x], [x, 0.0]]
        if shape.get("prefer") is not None:
            cfg_kw["prefer_device_noise_model"] = shape["prefer"]
        extra_obs = []
        if shape.get("init"):
            st = StateRepr.from_state_amplitudes(eigenstates=("r", "g"), amplitudes={"rg": 1.0})
            cfg_kw["initial_state"] = st
            # objects of the same class never share state: building another state does not change this one
            other = StateRepr.from_state_amplitudes(eigenstates=("r", "g"), amplitudes={"rgr": 1.0})
            extra_obs.append(("k3:state_repr_independent", st.n_qudits == 2 and other.n_qudits == 3))
        if shape.get("extra"):
            # backend-specific options (not part of the standard set), one of them explicitly None
            cfg_kw.update(custom_cutoff=inp.real("cutoff", 0, 1), custom_log_file=None, custom_level=3)
        if shape.get("nested"):
            cfg_kw.update(custom_solver={"tolerances": {"atol": inp.real("atol", 0, 1)}, "steps": [1, 2, 3]})
        try:
            cfg = EmulationConfig(**cfg_kw)
        except (ValueError, TypeError):
            raise core.Infeasible()
        if shape.get("nested"):
            # configurations built from the same (mutable) arguments share nothing with each other nor with the caller's objects
            twin = EmulationConfig(**cfg_kw)
            before = to_plain(twin._backend_options)
            cfg.custom_solver["tolerances"]["atol"] = 7.0
            cfg.custom_solver["steps"].append(4)
            extra_obs.append(("k3:configs_independent", AND(l2.snap_equal(to_plain(twin._backend_options), before),
                                                            len(cfg_kw["custom_solver"]["steps"]) == 3,
                                                            cfg_kw["custom_solver"]["tolerances"]["atol"] is not cfg.custom_solver["tolerances"]["atol"],
                                                            set(cfg_kw["custom_solver"]) == {"tolerances", "steps"})))
            cfg = twin
        try:
            s = cfg.to_abstract_repr()  # real schema validation
            cfg2 = EmulationConfig.from_abstract_repr(s)
        except Exception:  # noqa: BLE001 - a valid config must serialise and its document must decode
            return [("k3:config_roundtrip_completes", False)]
        a, b = to_plain(cfg._backend_options), to_plain(cfg2._backend_options)
        obs = extra_obs + [("k3:config_same_keys", set(a) == set(b))]
        for k in a:
            if k in b:
                obs.append(("k3:config_field:" + k, l2.snap_equal(a[k], b[k])))
        # decoding twice gives independent objects
        cfg3 = EmulationConfig.from_abstract_repr(s)
        obs.append(("k3:config_decodes_independent", cfg3 is not cfg2 and cfg3._backend_options is not cfg2._backend_options
                    and all(x is not y for x, y in zip(cfg3.observables, cfg2.observables))))
        return obs

    return h


def h_results(shape):
    """Results round trip: every stored value and time of every observable instance comes back (symbolic values and times;
    two instances may share a tag, the later one then owns the tag but the earlier one's data is still stored)."""

    def h(inp):
        jsonfacade.reset()
        import uuid

        from pulser.backend.results import Results

        r = Results(atom_order=("q0", "q1"), total_duration=inp.int("total_duration", 1, 10**6))
        uu = [uuid.UUID(int=i + 1) for i in range(shape["n_obs"])]
        tags = shape["tags"]
        for i, (u, tag) in enumerate(zip(uu, tags)):
            t_prev = 0.0
            for j in range(shape["n_times"]):
                t = inp.real("t%d_%d" % (i, j), 0, 1)
                inp.assume(t > t_prev)
                t_prev = t
                v = inp.real("v%d_%d" % (i, j), -10, 10)
                if shape.get("kinds"):
                    # other kinds of values an observable may store: complex numbers, lists of numbers, counters
                    # ("cseq": a complex observable whose first values happen to be real, then complex, then purely imaginary)
                    v = {"complex": complex(0.5, -1.5), "list": [v, 2.0], "counter": {"01": 3, "10": 7},
                         "cseq": [complex(0.5, 0.0), 0.25, complex(0.3, 0.4), complex(0.0, -0.25)][j % 4],
                         "clist": [complex(1.0, 0.0), complex(0.0, 1.0)] if j else [1.0, 0.0]}[shape["kinds"][(i + j) % len(shape["kinds"])]]
                r._store_raw(uuid=u, tag=tag, time=t, value=v)
        try:
            r2 = Results.from_abstract_repr(r.to_abstract_repr())
        except Exception:  # noqa: BLE001
            return [("k4:results_roundtrip_completes", False)]
        obs = [("k4:results_header", r2.atom_order == r.atom_order and l2.snap_equal(r2.total_duration, r.total_duration)),
               ("k4:results_tagmap", r2._tagmap == r._tagmap),
               ("k4:results_same_instances", set(r2._results) == set(r._results) and set(r2._times) == set(r._times))]
        for u in uu:
            obs.append(("k4:results_values", l2.snap_equal(r._results.get(u), r2._results.get(u))))
            obs.append(("k4:results_times", l2.snap_equal(r._times.get(u), r2._times.get(u))))
        return obs

    return h


def kernels(tier):
    ks = _k17(tier)
    ks.append(("results", dict(n_obs=1, tags=["energy"], n_times=2)))
    ks.append(("results", dict(n_obs=2, tags=["energy", "occupation"], n_times=2)))
    ks.append(("results", dict(n_obs=3, tags=["energy", "occupation", "energy"], n_times=1)))
    ks.append(("results", dict(n_obs=2, tags=["occupation", "bitstrings"], n_times=2, kinds=["list", "counter"])))
    ks.append(("results", dict(n_obs=1, tags=["expectation"], n_times=2, kinds=["complex"])))
    ks.append(("results", dict(n_obs=1, tags=["expectation"], n_times=4, kinds=["cseq"])))
    ks.append(("results", dict(n_obs=2, tags=["expectation", "state"], n_times=2, kinds=["clist"])))
    ks.append(("config", dict(obs=["bitstrings"], times=[True])))
    ks.append(("config", dict(obs=["bitstrings", "occupation"], times=[False, True], default_times="sym", suffix=True)))
    ks.append(("config", dict(obs=["correlation", "energy", "variance"], times=[True, False, False], default_times="full", mod=True)))
    ks.append(("config", dict(obs=["occupation"], times=[False], noise=True, interaction=True, prefer=True)))
    ks.append(("config", dict(obs=["fidelity", "bitstrings"], times=[True, False], init=True, shots=7, prefer=False)))
    ks.append(("config", dict(obs=["bitstrings"], times=[True], noise="eff")))
    ks.append(("config", dict(obs=["occupation"], times=[True], extra=True)))
    ks.append(("config", dict(obs=["occupation"], times=[True], extra=True, nested=True)))
    # two observables of each kind, told apart by their tag suffix only
    ks.append(("config", dict(obs=["fidelity", "fidelity", "expectation", "expectation"], times=[True, False, False, True], suffix=True)))
    ks.append(("config", dict(obs=["energy", "energy", "second_moment", "second_moment", "variance", "variance"], times=[False] * 6, suffix=True)))
    ks.append(("config", dict(obs=["correlation", "correlation", "occupation", "occupation", "bitstrings", "bitstrings"], times=[False] * 6, suffix=True)))
    return ks


def harness(kernel, shape):
    if kernel == "config":
        return h_config(shape)
    if kernel == "results":
        return h_results(shape)
    return _h17(kernel, shape)
