"""C07 - phase references (virtual-Z) are additive and applied to every pulse.

K1 (L0): _QubitRef/_PhaseTracker under <= 4 increments / last-used updates.
K2 (L2): Sequence programs mixing add(post_phase_shift), phase_shift on
         subsets, retargeting, two channels on one basis; a reference
         accumulator kept by the harness.
Out: the emulator (Ramsey) sentence.
"""
from __future__ import annotations

import itertools

import numpy as np
import z3

from checks import l1, l2
from symx import core, facade, stubs
from symx.core import AND, IFF, IMPLIES, ITE, NOT, OR, SBool, SReal, is_sym, smax

PROPERTY = "C07"
TWO_PI = 2 * np.pi
PH_TURNS = 4
PH_N = 360  # phases on the grid 2*pi*k/360 (whole degrees), |k| <= 4*360
STUBS = [
    "phases are grid angles 2*pi*k/360 (2*pi = exact value of the double); x % (2*pi) is k mod 360; a real-valued encoding with nested floor() made z3 4.8/5.1 and cvc5 time out (DESIGN 6/C07)",
    "proxies hash to 0 (= hash(0.0)); sound because in these harnesses every non-proxy phase value is exactly 0.0",
    "Waveform.modulation_buffers stubbed (nondeterministic, within [0, rise_time]) for devices with modulation",
    "builtins float/max/min rebound in pulser.sequence.* (identity on concrete values)",
]
FLOAT_MODE = "phases on the grid 2*pi*k/360, k integer, |k| <= 1440 (SPhase: exact integer arithmetic for % 2*pi)"
BOUNDS = {"quick": dict(shifts_per_qubit_basis="<=3", qubits=3, program_len="<=5"),
          "thorough": dict(shifts_per_qubit_basis="<=4", qubits=3, program_len="<=6")}
OUTSIDE = ["Ramsey populations on the emulator (ODE integration)", "binary64 rounding of phase sums (exact reals are used)"]


def setup():
    l2.setup()


def setup_concrete():
    l2.setup_concrete()


def congruent(a, b):
    """a == b (mod 2*pi)."""
    if isinstance(a, core.SPhase) or isinstance(b, core.SPhase):
        d = a - b
        if isinstance(d, core.SPhase):
            return SBool(d.k % d.N == 0)
    if is_sym(a) or is_sym(b):
        q = (a - b) / TWO_PI
        qe = core._r(q)
        return SBool(z3.ToReal(z3.ToInt(qe)) == qe)
    d = (a - b) / TWO_PI
    return abs(d - round(d)) < 1e-9


def in_range(x):
    if is_sym(x):
        return AND(x >= 0, x < TWO_PI)
    return 0 <= x < TWO_PI or abs(x - TWO_PI) < 0  # strict


# ---- K1 ------------------------------------------------------------------


def h_qubitref(shape):
    from pulser.sequence._basis_ref import _QubitRef

    def h(inp):
        r = _QubitRef()
        acc = 0.0
        obs = []
        shifts = []  # (time, cumulative)
        for i, kind in enumerate(shape["ops"]):
            if kind == "inc":
                phi = inp.phase("phi%d" % i, PH_N, -PH_TURNS, PH_TURNS)
                t = r.last_used
                prev = r.phase.last_phase
                r.increment_phase(phi)
                acc = acc + phi
                # inductive step: new reference == old reference + phi (mod 2pi)
                obs.append(("k1:additive_step", congruent(r.phase.last_phase, prev + phi)))
                if shape["ops"].count("inc") <= 2:
                    obs.append(("k1:additive_sum", congruent(r.phase.last_phase, acc)))
                obs.append(("k1:range", in_range(r.phase.last_phase)))
                obs.append(("k1:shift_time", r.phase.last_time == t))
            else:
                t = inp.int("t%d" % i, 0, None)
                before = r.last_used
                r.update_last_used(t)
                obs.append(("k1:last_used_monotone", AND(r.last_used >= before, r.last_used >= t,
                                                          OR(r.last_used == before, r.last_used == t))))
        ts = r.phase._times
        obs.append(("k1:times_sorted", AND(*[a < b for a, b in zip(ts, ts[1:])]) if len(ts) > 1 else True))
        obs.append(("k1:same_len", len(ts) == len(r.phase._phases)))
        return obs

    return h


# ---- K2 ------------------------------------------------------------------


def h_seq(shape):
    """shape: device, channels [(name, id, initial_target)], program (ops)."""

    def h(inp):
        stubs.bind(inp)
        from pulser.pulse import Pulse

        seq = l2.new_seq(shape["device"], shape.get("reg", "reg3"))
        qids = list(seq.register.qubit_ids)
        acc = {}  # (q, basis) -> accumulated shift
        last_shift_t = {}
        obs = []
        if shape.get("pre_dmm"):
            # the ground-rydberg basis is created by the DMM / SLM path before any channel is declared
            if shape["pre_dmm"] == "dmap":
                seq.config_detuning_map(seq.register.define_detuning_map({"q0": 1.0, "q1": 0.5}), "dmm_0")
            else:
                seq.config_slm_mask(["q1"])
            for q in qids:
                acc.setdefault((q, "ground-rydberg"), 0.0)
                last_shift_t.setdefault((q, "ground-rydberg"), 0)
        for (name, cid, it) in shape["channels"]:
            seq.declare_channel(name, cid, **({"initial_target": it} if it else {}))
            b = seq.declared_channels[name].basis
            for q in qids:
                acc.setdefault((q, b), 0.0)
                last_shift_t.setdefault((q, b), 0)
        def refs_now():
            return {(q, b): seq._basis_ref[b][q].phase.last_phase for (q, b) in acc}

        for i, op in enumerate(shape["program"]):
            before = refs_now()
            delta = {}
            if op[0] == "shift":
                phi = inp.phase("phi%d" % i, PH_N, -PH_TURNS, PH_TURNS)
                targets, basis = op[1], op[2]
                tq = {q: seq._basis_ref[basis][q].last_used for q in (targets or qids)}
                seq.phase_shift(phi, *targets, basis=basis)
                for q in (targets or qids):
                    delta[(q, basis)] = phi
                    last_shift_t[(q, basis)] = tq[q]
            elif op[0] == "add":
                name, proto = op[1], op[2]
                ch = seq.declared_channels[name]
                basis = ch.basis
                dur = op[3]
                prog_phase = inp.phase("ph%d" % i, PH_N, -PH_TURNS, PH_TURNS)
                post = inp.phase("post%d" % i, PH_N, -PH_TURNS, PH_TURNS) if op[4] else 0.0
                tgt = set(seq._schedule[name][-1].targets)
                refs = {q: seq._basis_ref[basis][q].phase.last_phase for q in tgt}
                barrier = [seq._basis_ref[basis][q].phase.last_time for q in tgt]
                p = Pulse.ConstantPulse(dur, 1.0, 0.0, prog_phase, post)
                try:
                    seq.add(p, name, proto)
                except ValueError:
                    # documented refusal: multi-target pulse on qubits whose
                    # references differ
                    same = AND(*[refs[q] == refs[list(tgt)[0]] for q in tgt])
                    obs.append(("k2:refusal_only_if_refs_differ", NOT(same)))
                    return obs
                sl = seq._schedule[name][-1]
                q0 = sorted(tgt)[0]
                obs.append(("k2:pulse_phase_is_programmed_plus_ref",
                            congruent(facade._unwrap0(sl.type.phase), prog_phase + refs[q0])))
                obs.append(("k2:pulse_phase_range", in_range(facade._unwrap0(sl.type.phase))))
                obs.append(("k2:not_before_last_shift", AND(*[sl.ti >= b for b in barrier])))
                for q in tgt:
                    obs.append(("k2:not_before_last_shift_ref", sl.ti >= last_shift_t[(q, basis)]))
                if op[4]:
                    tq = {q: seq._basis_ref[basis][q].last_used for q in tgt}
                    for q in tgt:
                        delta[(q, basis)] = post
            elif op[0] == "eom_on":
                seq.enable_eom_mode(op[1], 2.0, 0.0, -1.0)
            elif op[0] == "eom_off":
                seq.disable_eom_mode(op[1])
            elif op[0] == "add_eom":
                name = op[1]
                basis = seq.declared_channels[name].basis
                prog_phase = inp.phase("ph%d" % i, PH_N, -PH_TURNS, PH_TURNS)
                post = inp.phase("post%d" % i, PH_N, -PH_TURNS, PH_TURNS) if op[3] else 0.0
                tgt = set(seq._schedule[name][-1].targets)
                refs = {q: seq._basis_ref[basis][q].phase.last_phase for q in tgt}
                seq.add_eom_pulse(name, op[2], prog_phase, post_phase_shift=post)
                sl = [x for x in seq._schedule[name].slots if hasattr(x.type, "phase") and not l1.ref_is_detuned_delay(x.type)][-1]
                obs.append(("k2:pulse_phase_is_programmed_plus_ref", congruent(facade._unwrap0(sl.type.phase), prog_phase + refs[sorted(tgt)[0]])))
                if op[3]:
                    for q in tgt:
                        delta[(q, basis)] = post
            elif op[0] == "target":
                try:
                    seq.target(op[2], op[1])
                except ValueError:
                    return obs
            elif op[0] == "delay":
                seq.delay(op[2], op[1])
            # after every op: references equal the accumulated shifts
            # inductive step per (qubit, basis): reference after == reference
            # before + the shift this call applied to it (mod 2pi); untouched
            # references are *identical*
            after = refs_now()
            for key in acc:
                if key in delta:
                    obs.append(("k2:ref_additive_step", congruent(after[key], before[key] + delta[key])))
                    obs.append(("k2:ref_range", in_range(after[key])))
                else:
                    obs.append(("k2:ref_untouched", after[key] is before[key] or after[key] == before[key]))
                obs.append(("k2:api_ref", seq.current_phase_ref(key[0], key[1]) == after[key]))
        return obs

    return h


def kernels(tier):
    quick = tier == "quick"
    ks = []
    n = 3 if quick else 4
    for L in range(1, n + 2):
        for ops in itertools.product(("inc", "use"), repeat=L):
            if ops.count("inc") > n or ops.count("inc") == 0:
                continue
            ks.append(("qubitref", dict(ops=list(ops))))
    # Sequence-level programs
    devs = ["mock", "virt"] if quick else ["mock", "virt", "digital"]
    for dev in devs:
        if dev == "mock":
            chans = [("a", "raman_global", None), ("b", "raman_local", "q0"), ("r", "rydberg_global", None)]
            dig, ryd = "digital", "ground-rydberg"
        elif dev == "virt":
            chans = [("a", "ram_glob", None), ("b", "ram_loc", "q0"), ("r", "ryd_glob", None)]
            dig, ryd = "digital", "ground-rydberg"
        else:
            chans = [("b", "raman_local", "q0"), ("r", "rydberg_global", None), ("l", "rydberg_local", "q1")]
            dig, ryd = "digital", "ground-rydberg"
        progs = []
        g = "a" if dev != "digital" else "r"
        gb = dig if dev != "digital" else ryd
        progs.append([["add", g, "min-delay", 16, True], ["shift", ["q0"], gb], ["add", g, "min-delay", 16, False]])
        progs.append([["shift", ["q0", "q1"], dig], ["add", "b", "min-delay", 16, True], ["shift", [], dig], ["add", "b", "no-delay", 32, True]])
        progs.append([["add", "b", "min-delay", 16, True], ["target", "b", "q1"], ["add", "b", "min-delay", 16, True], ["shift", ["q1"], dig]])
        progs.append([["shift", ["q2"], ryd], ["add", "r", "min-delay", 16, True], ["shift", ["q2"], ryd], ["add", "r", "wait-for-all", 16, True]])
        progs.append([["shift", ["q0"], dig], ["shift", ["q0"], ryd], ["add", "b", "min-delay", 16, False], ["add", "r", "min-delay", 16, True]])
        other = "b" if dev != "digital" else "l"
        # the barrier matters: another channel of the same basis used the
        # qubit later than this channel's end, then a shift, then a no-delay add
        progs.append([["add", g, "min-delay", 32, True], ["add", other, "no-delay", 16, False]])
        progs.append([["add", g, "min-delay", 32, False], ["shift", [], gb], ["add", other, "no-delay", 16, True], ["add", other, "min-delay", 16, False]])
        # equal references set at *different times* on the targets of one
        # multi-target pulse: every target's shift time is a barrier
        if not quick:
            progs.append([["shift", ["q0"], dig], ["shift", ["q0"], dig], ["shift", ["q0"], dig], ["shift", ["q0"], dig], ["add", "b", "min-delay", 16, False]])
            progs.append([["add", "b", "min-delay", 16, True], ["add", "b", "min-delay", 16, True], ["add", "b", "no-delay", 16, True], ["delay", "b", 16], ["add", "b", "min-delay", 16, True]])
            progs.append([["add", g, "min-delay", 16, True], ["add", "b", "min-delay", 16, True], ["target", "b", "q2"], ["add", "b", "min-delay", 16, True], ["add", g, "min-delay", 16, True]])
        for pr in progs:
            ks.append(("seq", dict(device=dev, channels=chans, program=pr)))
        for pre in ("dmap", "slm"):
            if dev == "digital":
                continue
            ks.append(("seq", dict(device=dev, channels=[chans[2]], pre_dmm=pre, program=[
                ["shift", ["q0"], ryd], ["shift", ["q1", "q2"], ryd], ["add", "r", "min-delay", 16, True], ["shift", ["q2"], ryd]])))
        if dev == "virt":
            # EOM pulses carry a programmed phase and an optional post-phase-shift like any other pulse
            ks.append(("seq", dict(device=dev, channels=chans, program=[
                ["shift", ["q0", "q1", "q2"], ryd], ["eom_on", "r"], ["add_eom", "r", 16, True], ["add_eom", "r", 20, False],
                ["add_eom", "r", 16, True], ["eom_off", "r"], ["add", "r", "min-delay", 16, False]])))
            # durations that are not clock multiples (the pulse is stretched) with a non-zero reference
            ks.append(("seq", dict(device=dev, channels=chans, program=[
                ["shift", [], ryd], ["add", "r", "min-delay", 17, True], ["add", "r", "min-delay", 19, False],
                ["shift", ["q0"], dig], ["add", "b", "min-delay", 15, False]])))
        if dev != "digital":
            # the late-shifted qubit must be able to sit anywhere in the
            # iteration order of the target set: vary which qubit it is
            for late in ("q0", "q1", "q2"):
                others = [q for q in ("q0", "q1", "q2") if q != late]
                ch2 = [chans[0], ("b", chans[1][1], late), chans[2]]
                ks.append(("seq", dict(device=dev, channels=ch2, program=[
                    ["add", "b", "min-delay", 32, False], ["shift", [late], dig], ["shift", others, dig],
                    ["add", "a", "no-delay", 16, False]])))
                ks.append(("seq", dict(device=dev, channels=ch2, program=[
                    ["add", "b", "min-delay", 32, False], ["shift", others, dig], ["shift", [late], dig],
                    ["add", "a", "no-delay", 16, True]])))
    # EOM drift corrections are phase shifts too (shared kernel with C15-K4)
    from checks import c15

    ks += [("eom_drift", sh) for (k, sh) in c15.kernels(tier) if k == "drift"]
    return ks


def harness(kernel, shape):
    if kernel == "eom_drift":
        from checks import c15

        return c15.h_drift(shape)
    if kernel == "qubitref":
        return h_qubitref(shape)
    if kernel == "seq":
        return h_seq(shape)
    raise ValueError(kernel)
