"""C19 - layouts number traps canonically; registers, maps and layouts agree.

K1 order   RegisterLayout built from the same N symbolic points (decimal
           fixed point, 1e-7 grid so that near-ties at the 1e-6 rounding
           precision are in the domain) in two different orders: identical
           sorted coordinates, ascending (x, y, z) after rounding,
           traps_dict[i] = row i; the returned containers are not the
           layout's own state (mutating them changes nothing)
K2 define  define_register(*ids) places qubit i exactly on traps_dict[id_i]
K3 wmap    DetuningMap.get_qubit_weight_map / sorted_weights with symbolic
           coordinates and weights, two input orders
Out: SHA-256 static hash / == (C boundary), get_traps_from_coordinates
     (tuple-of-float dict keys), mappable-register order (C08).
"""
from __future__ import annotations

import itertools

import numpy as np

from symx import core, facade, stubs
from symx.core import AND, IFF, IMPLIES, ITE, NOT, OR, is_sym

PROPERTY = "C19"
STUBS = [
    "coordinates are decimal fixed-point values k*1e-7 (D-mode): np.round(x, 6) is the integer round-half-even of k/10",
    "np.lexsort / np.unique(axis=0) on proxies: pure-Python versions of the documented contract (stable, last key primary / sorted unique rows)",
    "np.isclose(a, b, rtol, atol) on proxies: |a-b| <= atol + rtol*|b| elementwise",
]
FLOAT_MODE = "D-mode (1e-7 grid) for coordinates, R-mode for weights"
BOUNDS = {"quick": dict(points_2d=[2, 3], points_3d=[2], coordinate_range="[-50, 50] um"),
          "thorough": dict(points_2d=[2, 3, 4], points_3d=[2, 3], coordinate_range="[-50, 50] um")}
OUTSIDE = ["static_hash / __eq__ symbolically (SHA-256 over tobytes(): order independence is decided on the concrete twin of each shape only)", "get_traps_from_coordinates (dict lookup by float tuples)",
           "mappable register order is concrete enumeration (kernel shared with C08)"]


def setup():
    import pulser.register._coordinates as co
    import pulser.register.base_register as br
    import pulser.register.register as rg
    import pulser.register.register_layout as rl
    import pulser.register.traps as tr
    import pulser.register.weight_maps as wm

    facade.install(extra_np=(co, tr, wm, rl, br, rg), extra_float=(wm,))
    stubs.init()
    core.HASH_ZERO[0] = True


def setup_concrete():
    stubs.init()


def pts(inp, n, dims, tag="p"):
    return [[inp.fix("%s%d_%d" % (tag, i, k), 7, -50, 50) for k in range(dims)] for i in range(n)]


def distinct_after_rounding(P):
    """All points differ after rounding to 1e-6 (the layout's precision)."""
    terms = []
    for a, b in itertools.combinations(P, 2):
        terms.append(OR(*[RND(x) != RND(y) for x, y in zip(a, b)]))
    return AND(*terms) if terms else True


def RND(x):
    return x.round(6) if is_sym(x) else float(np.round(x, 6))


def rows(arr):
    a = np.asarray(arr)
    return [list(r) for r in a]


def EQ(a, b):
    a, b = core._np_item(a), core._np_item(b)
    if is_sym(a) or is_sym(b):
        return a == b
    return abs(float(a) - float(b)) <= 1e-12


def lex_le(r1, r2):
    """r1 <= r2 lexicographically."""
    res = True
    for x, y in reversed(list(zip(r1, r2))):
        res = OR(x < y, AND(EQ(x, y), res))
    return res


def h_order(shape):
    from pulser.register.register_layout import RegisterLayout

    n, dims, perm = shape["n"], shape["dims"], shape["perm"]

    def h(inp):
        P = pts(inp, n, dims)
        try:
            l1 = RegisterLayout(P)
        except ValueError:
            # refused only if two points coincide (exactly)
            dup = OR(*[AND(*[EQ(x, y) for x, y in zip(a, b)]) for a, b in itertools.combinations(P, 2)]) if n > 1 else False
            return [("k1:refused_only_for_duplicates", dup)]
        l2 = RegisterLayout([P[i] for i in perm])
        s1, s2 = rows(l1.sorted_coords), rows(l2.sorted_coords)
        obs = [("k1:same_number", len(s1) == n and len(s2) == n)]
        if len(s1) != n or len(s2) != n or set(l1.traps_dict) != set(range(n)):
            # a trap went missing / ids are not 0..n-1: reported as the violation it is (not as a harness error below)
            return obs + [("k1:every_trap_has_an_id", False)]
        distinct = distinct_after_rounding(P)
        obs.append(("k1:order_independent", IMPLIES(distinct, AND(*[EQ(x, y) for r1, r2 in zip(s1, s2) for x, y in zip(r1, r2)]))))
        if core.Ctx.cur is None:
            # equality and the static hash hash raw bytes, which only exist for numbers: decided on the concrete twin of each
            # shape (the solver's witness points), not symbolically
            same = bool(distinct) is False or (l1 == l2 and l1.static_hash() == l2.static_hash() and hash(l1) == hash(l2))
            obs.append(("k1:eq_and_hash_order_independent", same))
        obs.append(("k1:ascending", AND(*[lex_le(a, b) for a, b in zip(s1, s1[1:])]) if n > 1 else True))
        # rows are the rounded inputs (a permutation of them)
        for r in s1:
            obs.append(("k1:row_is_a_rounded_input", OR(*[AND(*[EQ(x, RND(y)) for x, y in zip(r, p)]) for p in P])))
        td = l1.traps_dict
        obs.append(("k1:traps_dict_matches_rows", AND(*[EQ(x, y) for i in range(n) for x, y in zip(list(td[i]), s1[i])])))
        # the returned containers are copies: mutating them must not change the layout
        arr = l1.sorted_coords
        arr[0] = arr[0] + 1.0
        d = l1.traps_dict
        d[0] += 1.0
        d.pop(n - 1)
        s1b = rows(l1.sorted_coords)
        td2 = l1.traps_dict
        if len(td2) != n or set(td2) != set(range(n)):
            obs.append(("k1:accessors_return_copies", False))
        else:
            obs.append(("k1:accessors_return_copies", AND(*[EQ(x, y) for r1, r2 in zip(s1, s1b) for x, y in zip(r1, r2)],
                                                          *[EQ(x, y) for i in range(n) for x, y in zip(list(td2[i]), s1[i])])))
        return obs

    return h


def h_define(shape):
    from pulser.register.register_layout import RegisterLayout

    n, dims, ids = shape["n"], shape["dims"], shape["ids"]

    def h(inp):
        P = pts(inp, n, dims)
        inp.assume(distinct_after_rounding(P))
        lay = RegisterLayout(P)
        td = lay.traps_dict
        reg = lay.define_register(*ids)
        q = reg.qubits
        names = list(reg.qubit_ids)
        obs = [("k2:n_qubits", len(names) == len(ids))]
        for name, tid in zip(names, ids):
            pos = list(q[name].as_array(detach=True)) if hasattr(q[name], "as_array") else list(q[name])
            obs.append(("k2:qubit_sits_on_its_trap", AND(*[EQ(x, y) for x, y in zip(pos, list(td[tid]))])))
        # a register given together with a layout and trap ids: accepted iff the i-th qubit sits on the i-th listed trap
        coords = {name: np.array(list(td[tid]), dtype=object) for name, tid in zip(names, ids)}
        try:
            type(reg)(coords, layout=lay, trap_ids=tuple(ids))
            ok_same = True
        except ValueError:
            ok_same = False
        obs.append(("k2:register_with_matching_trap_ids_is_accepted", ok_same))
        if len(ids) >= 2:
            wrong = tuple(ids[1:]) + (ids[0],)
            try:
                type(reg)(coords, layout=lay, trap_ids=wrong)
                ok_wrong = True
            except ValueError:
                ok_wrong = False
            obs.append(("k2:register_with_permuted_trap_ids_is_refused", not ok_wrong))
        return obs

    return h


def h_define_symid(shape):
    """define_register with one trap id chosen by the solver (any integer in [-n-3, n+3], concretised by forking): the
    call is accepted iff every id names a trap (0..n-1) and no id repeats; an accepted register sits on exactly those traps."""
    from pulser.register.register_layout import RegisterLayout

    n, dims, fixed = shape["n"], shape["dims"], shape["fixed"]

    def h(inp):
        P = pts(inp, n, dims)
        inp.assume(distinct_after_rounding(P))
        lay = RegisterLayout(P)
        td = lay.traps_dict
        k = facade.concretize_int(inp.int("trap_id", -n - 3, n + 3))
        ids = list(fixed) + [k]
        try:
            reg = lay.define_register(*ids)
            ok = True
        except (ValueError, IndexError, KeyError, TypeError):
            ok = False
        valid = all(0 <= i < n for i in ids) and len(set(ids)) == len(ids)
        obs = [("k2:define_accepts_iff_ids_name_distinct_traps", ok == valid)]
        if ok and valid:
            q = reg.qubits
            for name, tid in zip(list(reg.qubit_ids), ids):
                pos = list(q[name].as_array(detach=True)) if hasattr(q[name], "as_array") else list(q[name])
                obs.append(("k2:qubit_sits_on_its_trap", AND(*[EQ(x, y) for x, y in zip(pos, list(td[tid]))])))
        return obs

    return h


def h_wmap(shape):
    from pulser.register.weight_maps import DetuningMap

    n, perm = shape["n"], shape["perm"]

    def h(inp):
        P = pts(inp, n, 2)
        inp.assume(distinct_after_rounding(P))
        W = [inp.real("w%d" % i, 0, 1) for i in range(n)]
        m1 = DetuningMap(P, W)
        m2 = DetuningMap([P[i] for i in perm], [W[i] for i in perm])
        obs = []
        sc, sw = rows(m1.sorted_coords), list(m1.sorted_weights)
        # sorted_weights follows sorted_coords: row j is the rounding of the point that carries weight sw[j]
        for j in range(n):
            obs.append(("k3:sorted_weight_belongs_to_sorted_trap",
                        OR(*[AND(EQ(sw[j], W[i]), *[EQ(x, RND(y)) for x, y in zip(sc[j], P[i])]) for i in range(n)])))
        # qubits placed exactly on the (rounded) traps get that trap's weight, in both input orders
        qubits = {"q%d" % i: np.array([RND(v) for v in P[i]], dtype=object) for i in range(n if n <= 2 else 2)}
        far = [inp.fix("far_%d" % k, 7, 100, 200) for k in range(2)]
        qubits["qfar"] = np.array(far, dtype=object)
        # traps further apart than the documented matching tolerance (atol 1e-6 + numpy's default rtol 1e-5 * |x| <= 5.01e-4)
        sep = AND(*[OR(*[abs(RND(x) - RND(y)) > 2e-3 for x, y in zip(a, b)]) for a, b in itertools.combinations(P, 2)]) if n > 1 else True
        inp.assume(sep)
        g1 = m1.get_qubit_weight_map(qubits)
        g2 = m2.get_qubit_weight_map(qubits)
        for i in range(n if n <= 2 else 2):
            obs.append(("k3:qubit_gets_weight_of_its_trap", IMPLIES(sep, EQ(g1["q%d" % i], W[i]))))
            obs.append(("k3:weight_map_order_independent", IMPLIES(sep, EQ(g1["q%d" % i], g2["q%d" % i]))))
        obs.append(("k3:no_trap_no_weight", AND(EQ(g1["qfar"], 0.0), EQ(g2["qfar"], 0.0))))
        if core.Ctx.cur is None:
            obs.append(("k3:map_eq_and_hash_order_independent", (not bool(sep)) or (m1 == m2 and m1.static_hash() == m2.static_hash())))
        # the SAME map object asked again about qubits that carry the same ids at OTHER positions (ids exchanged, one moved
        # away): the answer follows the positions, whatever was asked before
        if n == 2:  # (with three symbolic points the number of orderings makes these extra queries too expensive)
            swapped = dict(qubits)
            swapped["q0"], swapped["q1"] = qubits["q1"], qubits["q0"]
            swapped["qfar"] = qubits["q0"]
            g1b = m1.get_qubit_weight_map(swapped)
            obs.append(("k3:weight_follows_position_not_id", IMPLIES(sep, AND(EQ(g1b["q0"], W[1]), EQ(g1b["q1"], W[0]), EQ(g1b["qfar"], W[0])))))
            g1c = m1.get_qubit_weight_map(qubits)
            obs.append(("k3:weight_follows_position_not_id", IMPLIES(sep, AND(EQ(g1c["q0"], W[0]), EQ(g1c["q1"], W[1]), EQ(g1c["qfar"], 0.0)))))
        # the same map defined from a REGISTER, with the weights given in another order than the register's qubits
        from pulser import Register

        if n > 2:
            return obs
        names = ["a", "c", "b", "d"][:n]
        reg = Register({nm: np.array(list(P[i]), dtype=object) for i, nm in enumerate(names)})
        order = list(reversed(range(n)))
        given = {names[i]: W[i] for i in order}
        try:
            mreg = reg.define_detuning_map(given)
            g4 = mreg.get_qubit_weight_map(reg.qubits)
            obs.append(("k3:register_map_gives_each_qubit_its_weight", IMPLIES(sep, AND(*[EQ(g4[names[i]], W[i]) for i in range(n)]))))
            part = {names[0]: W[0]} if n > 1 else given
            g5 = reg.define_detuning_map(part).get_qubit_weight_map(reg.qubits)
            obs.append(("k3:register_map_partial", IMPLIES(sep, AND(EQ(g5[names[0]], W[0]), *[EQ(g5[names[i]], 0.0) for i in range(1, n)]))))
        except ValueError:
            # documented refusal: weights have to be in [0, 1] and sum ... (only when the weights are out of range)
            obs.append(("k3:register_map_refused_only_for_invalid_weights", False))
        # qubits at the ORIGINAL (unrounded) positions: a register and the map defined from it agree although the map
        # stores its traps rounded to 6 decimals (the difference is below the documented 1e-6 matching tolerance)
        raw = {"q%d" % i: np.array(list(P[i]), dtype=object) for i in range(n if n <= 2 else 2)}
        g3 = m1.get_qubit_weight_map(raw)
        for i in range(n if n <= 2 else 2):
            obs.append(("k3:unrounded_qubit_gets_weight_of_its_trap", IMPLIES(sep, EQ(g3["q%d" % i], W[i]))))
        return obs

    return h


def kernels(tier):
    quick = tier == "quick"
    ks = []
    for dims, ns in ((2, BOUNDS[tier]["points_2d"]), (3, BOUNDS[tier]["points_3d"])):
        for n in ns:
            perms = [p for p in itertools.permutations(range(n)) if p != tuple(range(n))]
            for perm in (perms[:2] if quick and n > 2 else perms[:5]):
                ks.append(("order", dict(n=n, dims=dims, perm=list(perm))))
    for dims in (2, 3):
        for n, ids in ((2, [1, 0]), (3, [2, 0]), (3, [1, 2, 0])):
            if dims == 3 and n == 3 and quick:
                continue
            ks.append(("define", dict(n=n, dims=dims, ids=ids)))
    for fixed in ([], [0], [2, 0]):
        ks.append(("define_symid", dict(n=3, dims=2, fixed=fixed)))
    for n in ((2,) if quick else (2, 3)):
        perms = [p for p in itertools.permutations(range(n)) if p != tuple(range(n))]
        for perm in perms[:2]:
            ks.append(("wmap", dict(n=n, perm=list(perm))))
    return ks


def harness(kernel, shape):
    if kernel == "mappable":
        from checks import c08

        return c08.h_mappable(shape)
    return {"order": h_order, "define": h_define, "define_symid": h_define_symid, "wmap": h_wmap}[kernel](shape)


_k19, _setup19, _setupc19 = kernels, setup, setup_concrete


def kernels(tier):  # noqa: F811
    from checks import c08

    return _k19(tier) + [(k, sh) for (k, sh) in c08.kernels(tier) if k == "mappable"]


def setup():  # noqa: F811
    _setup19()
    from checks import c08

    c08.setup()


def setup_concrete():  # noqa: F811
    _setupc19()
    from checks import c08

    c08.setup_concrete()
