"""C05 - the emulated Hamiltonian equals the documented formula.

The real QutipEmulator.from_sequence / QutipEmulator.__init__ /
Hamiltonian.__init__ / set_config / _extract_samples / _construct_hamiltonian
/ get_hamiltonian (and below them the real sampler and to_nested_dict) run on
a real Sequence whose amplitudes, detunings and detuning-map weights are
solver variables.  QuTiP's compiled operators only ever hold concrete data
(projectors, tensor products, interaction strengths); the program-dependent
coefficient arrays stay numpy object arrays next to them until
`qutip.QobjEvo(...)`, which is replaced by a small stand-in (SymEvo) that
keeps the (operator, coefficient array) terms and evaluates their sum on a
grid time.  For every integer t in [0, T) every entry of H(t) is compared
with the documented formula, built independently from the schedule's slots.
"""
from __future__ import annotations

import itertools
import math

import numpy as np

from checks import l2
from symx import core, facade, stubs
from symx.core import AND, NOT, OR, is_sym
from symx.cplx import SCplx

PROPERTY = "C05"
S = lambda n, k="real", **kw: dict(s=n, k=k, **kw)  # noqa: E731
STUBS = [
    "qutip.QobjEvo (name `qutip` in pulser_simulation.hamiltonian) replaced by SymEvo: keeps the list of (concrete Qobj, coefficient "
    "array) terms; `+` concatenates, dag() takes adjoint operators and conjugate coefficients, compress() is a no-op, evaluation at a "
    "time of its own tlist returns sum_k coeff_k[index] * op_k (QuTiP's array coefficients on their grid points). Every other QuTiP "
    "call (basis, qeye, tensor, Qobj products, set_initial_state) is the compiled one on concrete data",
    "timelines, phases, registers and devices are concrete per shape; every amplitude, detuning and detuning-map weight is a solver variable "
    "(amplitudes in [0,10], detunings in [-20,20], weights in [0,1])",
    "EOM shapes: Waveform.modulation_buffers replaced by the fixed value (rise_time//2, rise_time//2) so that the timeline stays concrete",
    "configurations: default; SPAM noise then reset_config(); dephasing (collapse operators do not enter H); the noiseless=True view. "
    "The state-preparation draw is a stub (first atom bad), also in replays; sampling_rate 1 (every integer time) and 0.7 / 0.5 / 0.31 (the times of the emulator's own grid)",
]
FLOAT_MODE = ("R-mode exact reals for amplitudes/detunings/weights; concrete binary64 for e^{-i phi} and interaction strengths, compared "
              "within 1e-6 absolute (+1e-9 relative on interaction strengths)")
BOUNDS = {"quick": dict(programs=10, atoms="2-3", levels="2-3", times="every integer t in [0,T), T <= 48"),
          "thorough": dict(programs=15, atoms="2-3", levels="2-3", times="every integer t in [0,T), T <= 64")}
OUTSIDE = ["noise models (random draws, collapse operators)", "sampling_rate < 1 between the grid times (spline interpolation)",
           "output modulation", "t = T (the extra sample appended by the emulator)",
           "two pulses with non-zero amplitude at the same time on the same atom and basis",
           "symbolic geometry / Rydberg level (concrete registers: 2D, 3D, permuted ids)", "symbolic phases (C07)"]
TOL = 1e-6
TIMEOUT_MS = {"quick": 30000, "thorough": 90000}


# --------------------------------------------------------------------------
# stand-in for QobjEvo and the numpy facade of the hamiltonian module
# --------------------------------------------------------------------------


class SymEvo:
    def __init__(self, qobj_list, tlist=None, _terms=None):
        import qutip

        self.tlist = None if tlist is None else np.asarray(tlist, dtype=float)
        if _terms is not None:
            self.terms = _terms
            return
        self.terms = []
        if isinstance(qobj_list, qutip.Qobj):
            qobj_list = [qobj_list]
        for el in qobj_list:
            if isinstance(el, (list, tuple)):
                op, c = el
                c = list(np.asarray(c, dtype=object).flat)
                if self.tlist is None or len(c) != len(self.tlist):
                    raise ValueError("coefficient array of length %d for %s times" % (len(c), None if self.tlist is None else len(self.tlist)))
            else:
                op, c = el, None
            self.terms.append((op, c))

    def dag(self):
        out = []
        for op, c in self.terms:
            opd = op.dag() if hasattr(op, "dag") else np.conj(op)
            out.append((opd, None if c is None else [conj(x) for x in c]))
        return SymEvo(None, self.tlist, _terms=out)

    def __add__(self, o):
        if not isinstance(o, SymEvo):
            return NotImplemented
        return SymEvo(None, self.tlist, _terms=self.terms + o.terms)

    def compress(self):
        return None

    def __call__(self, t):
        idx = [i for i, x in enumerate(self.tlist) if abs(x - t) < 1e-12]
        if len(idx) != 1:
            raise RuntimeError("time %r is not a grid point of the stand-in" % (t,))
        # identical coefficient vectors (e.g. every ns of a constant pulse) give the identical matrix: built once
        key = tuple(None if c is None else ckey(c[idx[0]]) for _, c in self.terms)
        memo = self.__dict__.setdefault("_memo", {})
        if key in memo:
            return memo[key]
        acc = memo[key] = {}
        for op, c in self.terms:
            k = 1.0 if c is None else c[idx[0]]
            if not is_sym_c(k) and k == 0:
                continue
            for (r, col), v in sparse(op).items():
                acc[(r, col)] = acc.get((r, col), SCplx(0.0, 0.0)) + SCplx.lift(k) * SCplx.lift(v)
        return acc


def ckey(x):
    """Structural key of a number / proxy / complex proxy (z3 terms are hash-consed: equal id <=> same term)."""
    x = core._np_item(x)
    if isinstance(x, SCplx):
        return ("c", ckey(x.re), ckey(x.im))
    if is_sym(x):
        return ("z", x.e.get_id())
    if isinstance(x, complex):
        return ("c", x.real, x.imag)
    return float(x)


def is_sym_c(x):
    return isinstance(x, SCplx) and (is_sym(x.re) or is_sym(x.im)) or is_sym(x)


def conj(x):
    x = core._np_item(x)
    if isinstance(x, (SCplx, complex)):
        return x.conjugate()
    return x


_SP = {}


def sparse(op):
    """Non-zero entries of a concrete operator."""
    if isinstance(op, (int, float)):
        assert op == 0
        return {}
    key = id(op)
    if key not in _SP or _SP[key][0] is not op:
        m = op.full()
        _SP[key] = (op, {(int(r), int(c)): complex(m[r, c]) for r, c in zip(*np.nonzero(m))})
    return _SP[key][1]


class QutipProxy:
    def __getattr__(self, n):
        import qutip

        return getattr(qutip, n)

    QobjEvo = SymEvo


class _FixedRandom:
    """Environment stub for the state-preparation draw (np.random.uniform in Hamiltonian._update_noise): the first atom of
    the register comes out badly prepared, the others fine. Kept in concrete replays, so that they are deterministic."""

    def uniform(self, *a, size=None, **k):
        out = np.full(size, 0.99)
        out[0] = 0.0
        return out

    def __getattr__(self, n):
        return getattr(np.random, n)


class _ConcreteNP:
    random = _FixedRandom()

    def __getattr__(self, n):
        return getattr(np, n)


class HamFacade(facade.NPFacade):
    random = _FixedRandom()

    def exp(self, a, **kw):
        if any(is_sym_c(core._np_item(x)) for x in np.asarray(a, dtype=object).flat):
            raise core.Realise("np.exp of a symbolic phase")
        return np.exp(np.asarray(a, dtype=complex), **kw)

    def any(self, a, *args, **kw):
        a = self._ua(a)
        if isinstance(a, np.ndarray) and a.dtype == object and not args and not kw:
            return OR(*[core._np_item(x) for x in a.flat]) if a.size else False
        return super().any(a, *args, **kw)


def fixed_buffers(self, channel, eom=False):
    if not channel.mod_bandwidth:
        return 0, 0
    tr = channel.eom_config.rise_time if eom else channel.rise_time
    return tr // 2, tr // 2


def setup():
    l2.setup(stub_buffers=False)
    import pulser.waveforms as wf
    import pulser_simulation.hamiltonian as hm

    wf.Waveform.modulation_buffers = fixed_buffers
    hm.np = HamFacade()
    hm.qutip = QutipProxy()


def setup_concrete():
    import pulser.waveforms as wf

    stubs.init()
    wf.Waveform.modulation_buffers = fixed_buffers
    import pulser_simulation.hamiltonian as hm

    hm.np = _ConcreteNP()


# --------------------------------------------------------------------------
# registers and programs
# --------------------------------------------------------------------------


def mk_reg(kind):
    from pulser import Register, Register3D

    if kind == "line2":
        return Register({"q0": (0.0, 0.0), "q1": (0.0, 8.0)})
    if kind == "tri3":
        return Register({"q0": (0.0, 0.0), "q1": (7.0, 0.0), "q2": (2.0, 6.0)})
    if kind == "perm3":  # ids are not in sorted order, neither are the coordinates
        return Register({"q1": (7.0, 0.0), "q2": (-1.0, 9.0), "q0": (0.0, 0.0)})
    if kind == "cube3":
        return Register3D({"q0": (0.0, 0.0, 0.0), "q1": (5.0, 0.0, 3.0), "q2": (0.0, 6.0, -4.0)})
    if kind == "intperm3":  # integer labels that are a non-identity permutation of the positions 0..2
        return Register({2: (0.0, 0.0), 0: (7.0, 0.0), 1: (2.0, 6.0)})
    if kind == "virt3":
        return Register({"q0": (0.0, 0.0), "q1": (6.0, 0.0), "q2": (0.0, 9.0)})
    raise ValueError(kind)


A = lambda n: S(n, lo=0.5, hi=10)  # noqa: E731  amplitude that is certainly non-zero
A0 = lambda n: S(n, lo=0, hi=10)  # noqa: E731  amplitude that may vanish
D = lambda n: S(n, lo=-20, hi=20)  # noqa: E731
DN = lambda n: S(n, lo=0.5, hi=20)  # noqa: E731  detuning that is certainly non-zero (keeps the number of zero/non-zero forks down)

PROGRAMS = {
    # three levels, global + local Rydberg + local Raman, 27x27
    "ising_all": dict(device="mock", reg="tri3", prog=[
        ["declare", "g", "rydberg_global"], ["declare", "l", "rydberg_local", "q1"], ["declare", "r", "raman_local", "q0"],
        ["add", "g", ["cp", 6, A("a0"), DN("d0"), 0.37]],
        ["add", "l", ["cp", 5, A0("a1"), D("d1"), 0.74]],
        ["target", "l", "q2"],
        ["add", "l", ["pulse", ["ramp", 4, S("a2", lo=0, hi=5), S("a3", lo=5, hi=10)], ["const", 4, DN("d2")], 1.11]],
        ["add", "r", ["cp", 7, A0("a4"), D("d3"), 1.48], "min-delay"]]),
    # only the digital basis
    "digital": dict(device="mock", reg="line2", prog=[
        ["declare", "rg", "raman_global"], ["declare", "r", "raman_local", "q1"],
        ["add", "rg", ["cp", 6, A("a0"), D("d0"), 2.1]],
        ["add", "r", ["cp", 6, A0("a1"), D("d1"), 0.9]],
        ["add", "rg", ["cp", 5, A0("a2"), D("d2"), 4.0]]]),
    # permuted register: atom order is the register's, not the sorted one
    "perm": dict(device="mock", reg="perm3", prog=[
        ["declare", "l", "rydberg_local", ["q0", "q2"]], ["declare", "g", "rydberg_global"],
        ["add", "l", ["cp", 6, A("a0"), D("d0"), 2.22]],
        ["target", "l", ["q1"]],
        ["add", "l", ["cp", 5, A("a1"), D("d1"), 2.59]],
        ["add", "g", ["cp", 6, A0("a2"), D("d2"), 2.96]]]),
    # detuning map with symbolic weights
    "dmm": dict(device="mock", reg="tri3", prog=[
        ["declare", "g", "rydberg_global"],
        ["config_dmap", {"q0": S("w0", lo=0, hi=1), "q1": S("w1", lo=0, hi=1), "q2": 0.25}, "dmm_0"],
        ["add", "g", ["cp", 8, A("a0"), D("d0"), 3.33]],
        ["add_dmm", "dmm_0", ["ramp", 6, -2.0, -1.0]],
        ["delay", "dmm_0", 4],
        ["add_dmm", "dmm_0", ["const", 5, -3.0]],
        ["add", "g", ["cp", 6, A0("a1"), D("d1"), 3.7], "no-delay"]]),
    "dmm_symdet": dict(device="mock", reg="cube3", prog=[
        ["declare", "l", "rydberg_local", "q1"],
        ["config_dmap", {"q0": 1.0, "q1": 0.5, "q2": 0.0}, "dmm_0"],
        ["add_dmm", "dmm_0", ["ramp", 6, S("e0", lo=-10, hi=-5), S("e1", lo=-5, hi=0)]],
        ["add", "l", ["cp", 8, A("a0"), D("d0"), 4.07], "no-delay"],
        ["add_dmm", "dmm_0", ["const", 5, S("e2", lo=-20, hi=0)], "wait-for-all"]]),
    # the detuning map is configured BEFORE the channels are declared (the DMM is the first channel of the samples)
    "dmm_first": dict(device="mock", reg="tri3", prog=[
        ["config_dmap", {"q0": 1.0, "q1": 0.5, "q2": S("w2", lo=0, hi=1)}, "dmm_0"],
        ["declare", "l", "rydberg_local", "q1"], ["declare", "g", "rydberg_global"],
        ["add", "l", ["cp", 8, A("a0"), D("d0"), 0.4]],
        ["add_dmm", "dmm_0", ["const", 6, -2.5]],
        ["target", "l", "q2"], ["add", "l", ["cp", 5, A0("a1"), D("d1"), 0.9]],
        ["add", "g", ["cp", 7, A("a2"), D("d2"), 1.3], "no-delay"]]),
    # SLM mask in Ising mode (DMM pulse during the first global pulse)
    "slm_ising": dict(device="mock", reg="tri3", prog=[
        ["declare", "g", "rydberg_global"], ["config_slm", ["q0", "q2"]],
        ["add", "g", ["cp", 8, A("a0"), D("d0"), 0.6]],
        ["add", "g", ["cp", 6, A0("a1"), D("d1"), 1.9]]]),
    # XY mode in 3D with a tilted field and an SLM mask
    "xy_slm": dict(device="mock", reg="cube3", mag=(1.0, 2.0, 2.0), prog=[
        ["declare", "mw", "mw_global"], ["config_slm", ["q1"]],
        ["delay", "mw", 3],
        ["add", "mw", ["cp", 6, A("a0"), D("d0"), 4.44]],
        ["add", "mw", ["cp", 5, A0("a1"), D("d1"), 4.81]],
        ["delay", "mw", 2],
        ["add", "mw", ["pulse", ["ramp", 4, S("a2", lo=0, hi=5), S("a3", lo=5, hi=10)], ["const", 4, D("d2")], 5.18]]]),
    # 2D, two masked atoms, first pulse (= mask) ending at t = 13, a second channel-less stretch afterwards
    "xy_slm2": dict(device="mock", reg="perm3", mag=(0.0, 3.0, 1.0), prog=[
        ["declare", "mw", "mw_global"], ["config_slm", ["q0", "q2"]],
        ["add", "mw", ["cp", 13, A("a0"), D("d0"), 0.8]],
        ["delay", "mw", 4],
        ["add", "mw", ["cp", 5, A0("a1"), D("d1"), 2.3]]]),
    "xy_plain": dict(device="mock", reg="perm3", prog=[
        ["declare", "mw", "mw_global"],
        ["add", "mw", ["cp", 6, A0("a0"), D("d0"), 1.3]],
        ["delay", "mw", 3],
        ["add", "mw", ["cp", 5, A("a1"), D("d1"), 2.9]]]),
    # two channels on the same basis, one after the other
    "two_glob": dict(device="mock", reg="line2", prog=[
        ["declare", "a", "rydberg_global"], ["declare", "b", "rydberg_global"],
        ["add", "b", ["cp", 8, A("a0"), D("d0"), 1.0]],
        ["add", "a", ["cp", 8, A("a1"), D("d1"), 0.5]]]),
    "glob_then_local": dict(device="mock", reg="line2", prog=[
        ["declare", "l", "rydberg_local", "q1"], ["declare", "g", "rydberg_global"],
        ["add", "l", ["cp", 8, A("a0"), D("d0"), 1.0]],
        ["add", "g", ["cp", 8, A("a1"), D("d1"), 0.5]]]),
    "eom": dict(device="virt", reg="virt3", prog=[
        ["declare", "g", "ryd_glob"], ["declare", "l", "ram_glob"],
        ["add", "l", ["cp", 9, A0("a0"), D("d0"), 5.55]],
        ["enable_eom", "g", 2.0, 0.0, -1.0],
        ["add_eom", "g", 8, 5.92],
        ["delay", "g", 8],
        ["add_eom", "g", 12, 0.29],
        ["disable_eom", "g"],
        # (l goes on long after g has left EOM mode and fallen silent)
        ["add", "l", ["cp", 5, A("a1"), D("d1"), 0.66], "no-delay"],
        ["add", "l", ["cp", 40, A("a2"), DN("d2"), 1.66]]]),
    # two local channels drive two atoms at the same time with the SAME envelope (same amplitude / detuning variables)
    # but different phases
    "two_local_same_env": dict(device="mock", reg="tri3", prog=[
        ["declare", "l0", "rydberg_local", "q0"], ["declare", "l1", "rydberg_local", "q1"], ["declare", "l2", "rydberg_local", "q2"],
        # (l0 and l1 with the same CONCRETE numbers: code that compares raw sample buffers only sees equal buffers then)
        ["add", "l0", ["cp", 8, 1.0, 0.5, 0.3]],
        ["add", "l1", ["cp", 8, 1.0, 0.5, 1.7], "no-delay"],
        ["add", "l2", ["cp", 8, A("a0"), D("d0"), 2.9], "no-delay"],
        ["add", "l2", ["cp", 6, A("a1"), D("d1"), 1.1]]]),
    # integer atom labels 2, 0, 1 (label != position in the register)
    "int_labels": dict(device="mock", reg="intperm3", prog=[
        ["declare", "l", "rydberg_local", 0], ["declare", "g", "rydberg_global"],
        ["add", "l", ["cp", 6, A("a0"), D("d0"), 0.7]],
        ["target", "l", 2], ["add", "l", ["cp", 5, A("a1"), D("d1"), 1.9]],
        ["add", "g", ["cp", 6, A0("a2"), D("d2"), 2.4]]]),
    # nothing but idle time: no basis is "used", the emulator falls back to the ground-rydberg pair
    "idle": dict(device="mock", reg="line2", prog=[
        ["declare", "g", "rydberg_global"], ["delay", "g", 12]]),
    "phase_shift": dict(device="mock", reg="line2", prog=[
        ["declare", "g", "rydberg_global"], ["declare", "r", "raman_local", "q0"],
        ["add", "g", ["cp", 6, A("a0"), D("d0"), 0.4]],
        ["phase_shift", 1.1, ["q0", "q1"], "ground-rydberg"],
        ["add", "g", ["cp", 6, A("a1"), D("d1"), 0.4]],
        ["add", "r", ["cp", 5, A("a2"), D("d2"), 0.0]]]),
    "ramp_local": dict(device="mock", reg="cube3", prog=[
        ["declare", "l", "rydberg_local", ["q2"]],
        ["add", "l", ["pulse", ["ramp", 6, S("a0", lo=0, hi=5), S("a1", lo=5, hi=10)], ["ramp", 6, S("d0", lo=-10, hi=0), S("d1", lo=0, hi=10)], 2.2]],
        ["target", "l", ["q0", "q1"]],
        ["add", "l", ["pulse", ["custom", [A0("c0"), A0("c1"), A0("c2"), A0("c3")]], ["const", 4, D("d2")], 3.9]]]),
}
QUICK = ["idle", "int_labels", "two_local_same_env", "ising_all", "digital", "perm", "dmm", "dmm_first", "slm_ising", "xy_slm", "two_glob", "glob_then_local", "eom"]

BASIS_AB = {"ground-rydberg": ("r", "g"), "digital": ("g", "h"), "XY": ("u", "d")}  # (|b>, |a>): |b> = (1,0), |a> = (0,1)


# --------------------------------------------------------------------------
# the documented formula, from the schedule
# --------------------------------------------------------------------------


_C6 = {}


def c6_table():
    """C6/hbar per Rydberg level, read from the data file itself (not through BaseDevice.interaction_coeff)."""
    if not _C6:
        import json
        import os

        _C6.update(json.load(open(os.path.join(core.REPO_ROOT, "pulser-core/pulser/devices/interaction_coefficients/C6_coeffs.json"))))
    return _C6


def wf_list(wf):
    a = wf.samples.as_array(detach=True)
    return list(a.flat) if a.dtype == object else [float(x) for x in a]


class Oracle:
    def __init__(self, seq, register=None):
        from pulser.channels.dmm import DMM
        from pulser.pulse import Pulse

        self.seq = seq
        self.reg = seq.register if register is None else register  # (the atoms the emulator was told to emulate)
        self.qids = list(self.reg.qubit_ids)
        self.N = len(self.qids)
        self.T = seq.get_duration()
        self.in_xy = any(cs.channel_obj.basis == "XY" for cs in seq._schedule.values())
        self.mask_targets = set(seq._slm_mask_targets) if seq._slm_mask_time else set()
        self.mask_end = seq._slm_mask_time[1] if seq._slm_mask_time else 0
        self.drive = {}  # (q, basis, t) -> list of (amp, phase, channel)
        self.det = {}  # (q, basis, t) -> detuning
        self.used_terms = {}  # basis -> list of "value != 0"
        self.glob_phases = {}  # basis -> {Global channels that have a pulse with non-zero phase}
        self.glob_names = set()  # Global (non-DMM) channels
        for name, cs in seq._schedule.items():
            ch = cs.channel_obj
            basis = ch.basis
            is_dmm = isinstance(ch, DMM)
            wmap = cs.detuning_map.get_qubit_weight_map(self.reg.qubits) if is_dmm else None
            self.used_terms.setdefault(basis, [])
            for sl in cs.slots:
                if not isinstance(sl.type, Pulse):
                    continue
                a = wf_list(sl.type.amplitude)
                d = wf_list(sl.type.detuning)
                ph = float(facade._unwrap0(sl.type.phase))
                if ch.addressing == "Global" and not is_dmm:
                    self.glob_names.add(name)
                    if ph % (2 * math.pi) != 0:
                        self.glob_phases.setdefault(basis, set()).add(name)
                self.used_terms[basis] += [x != 0 for x in a] + [x != 0 for x in d]
                targets = self.qids if (ch.addressing == "Global" and not is_dmm) else [q for q in self.qids if q in sl.targets]
                for k, t in enumerate(range(sl.ti, sl.tf)):
                    for q in targets:
                        if basis == "XY" and q in self.mask_targets and t < self.mask_end:
                            continue  # withheld from masked atoms while the mask is on
                        w = (wmap.get(q, 0.0) if is_dmm else 1.0)
                        self.drive.setdefault((q, basis, t), []).append((a[k], ph, name))
                        self.det[(q, basis, t)] = self.det.get((q, basis, t), 0.0) + d[k] * w

    def used_bases(self):
        """Forks (in the harness) on whether a basis has any non-zero programmed value."""
        used = []
        for basis, terms in self.used_terms.items():
            if bool(OR(*terms)) if terms else False:
                used.append(basis)
        return used

    def eigen(self, used):
        if not used:
            return ["u", "d"] if self.in_xy else ["r", "g"]
        if set(used) == {"XY"}:
            return ["u", "d"]
        if set(used) == {"ground-rydberg"}:
            return ["r", "g"]
        if set(used) == {"digital"}:
            return ["g", "h"]
        return ["r", "g", "h"]

    def basis_name(self, used):
        if not used:
            return "XY" if self.in_xy else "ground-rydberg"
        return used[0] if len(used) == 1 else "all"

    # ---- matrix assembly
    def _index(self, states, d):
        i = 0
        for s in states:
            i = i * d + s
        return i

    def add_single(self, H, d, qi, x, y, coeff):
        for rest in itertools.product(range(d), repeat=self.N - 1):
            row = list(rest[:qi]) + [x] + list(rest[qi:])
            col = list(rest[:qi]) + [y] + list(rest[qi:])
            k = (self._index(row, d), self._index(col, d))
            H[k] = H.get(k, SCplx(0.0, 0.0)) + coeff

    def add_pair(self, H, d, i, j, xs, ys, coeff):
        for rest in itertools.product(range(d), repeat=self.N - 2):
            rest = list(rest)
            row, col = [], []
            it = iter(rest)
            for p in range(self.N):
                if p == i:
                    row.append(xs[0]); col.append(ys[0])
                elif p == j:
                    row.append(xs[1]); col.append(ys[1])
                else:
                    v = next(it)
                    row.append(v); col.append(v)
            k = (self._index(row, d), self._index(col, d))
            H[k] = H.get(k, SCplx(0.0, 0.0)) + coeff

    def coords3(self, q):
        c = [float(x) for x in self.reg.qubits[q].as_array(detach=True)]
        return c + [0.0] * (3 - len(c))

    def hamiltonian(self, t, eig, used, extra_phase=None):
        """(entries, scale): documented H(t) in the ordering `eig` and the magnitude of concrete interaction strengths per entry.
        extra_phase (only used to delimit known finding F17): {channel: phase added to that Global channel's drive}."""
        d = len(eig)
        H, scale = {}, {}
        for qi, q in enumerate(self.qids):
            for basis in used:
                b, a = (eig.index(s) for s in BASIS_AB[basis])
                for amp, ph, name in self.drive.get((q, basis, t), []):
                    if extra_phase:
                        ph = ph + extra_phase.get(name, 0.0)
                    c = SCplx(0.5 * math.cos(ph), -0.5 * math.sin(ph)) * SCplx.lift(amp)  # Omega/2 e^{-i phi}
                    self.add_single(H, d, qi, a, b, c)  # |a><b|
                    self.add_single(H, d, qi, b, a, c.conjugate())  # h.c.
                det = self.det.get((q, basis, t), 0.0)
                self.add_single(H, d, qi, b, b, SCplx.lift(-det if is_sym(det) else -float(det)))
        dev = self.seq.device
        if "r" in eig:
            r = eig.index("r")
            for i, j in itertools.combinations(range(self.N), 2):
                R = math.dist(self.coords3(self.qids[i]), self.coords3(self.qids[j]))
                U = c6_table()[str(dev.rydberg_level)] / R**6
                self.add_pair(H, d, i, j, (r, r), (r, r), SCplx(U, 0.0))
                for k in self._pair_keys(d, i, j, (r, r), (r, r)):
                    scale[k] = scale.get(k, 0.0) + abs(U)
        if eig == ["u", "d"]:
            mag = [float(x) for x in self.seq.magnetic_field]
            mn = math.sqrt(sum(x * x for x in mag))
            for i, j in itertools.combinations(range(self.N), 2):
                qi, qj = self.qids[i], self.qids[j]
                if t < self.mask_end and (qi in self.mask_targets or qj in self.mask_targets):
                    continue  # masked atoms are decoupled while the mask is on
                ci, cj = self.coords3(qi), self.coords3(qj)
                diff = [x - y for x, y in zip(ci, cj)]
                R = math.sqrt(sum(x * x for x in diff))
                cos = sum(x * y for x, y in zip(diff, mag)) / (R * mn)
                U = dev.interaction_coeff_xy * (1 - 3 * cos * cos) / R**3
                # sigma+_i sigma-_j + sigma-_i sigma+_j with sigma+ = |1><0|: |u>=|0> is index 0, |d>=|1> is index 1
                self.add_pair(H, d, i, j, (1, 0), (0, 1), SCplx(U, 0.0))
                self.add_pair(H, d, i, j, (0, 1), (1, 0), SCplx(U, 0.0))
                for k in self._pair_keys(d, i, j, (1, 0), (0, 1)) + self._pair_keys(d, i, j, (0, 1), (1, 0)):
                    scale[k] = scale.get(k, 0.0) + abs(U)
        return H, scale

    def key(self, t):
        """Everything hamiltonian(t, ...) depends on."""
        out = [t < self.mask_end]
        for (q, basis, tt), lst in self.drive.items():
            if tt == t:
                out.append((q, basis, tuple((ckey(a), ph, n) for a, ph, n in lst), ckey(self.det.get((q, basis, t), 0.0))))
        return tuple(sorted(out, key=repr))

    def _pair_keys(self, d, i, j, xs, ys):
        tmp = {}
        self.add_pair(tmp, d, i, j, xs, ys, SCplx(0.0, 0.0))
        return list(tmp)

    def residual_phase_times(self):
        """Times at which a Global channel drives on a basis on which ANOTHER Global channel has pulses of non-zero phase
        (that channel's whole sampled phase array is added to the driving one's; known finding F17)."""
        out = set()
        for (q, basis, t), lst in self.drive.items():
            drivers = {n for _, _, n in lst if n in self.glob_names}
            if drivers and self.glob_phases.get(basis, set()) - drivers:
                out.add(t)
        return out


# --------------------------------------------------------------------------
# harness
# --------------------------------------------------------------------------


def close(x, y, tol):
    dlt = x - y
    if is_sym(dlt):
        return AND(dlt <= tol, dlt >= -tol)
    return abs(float(dlt)) <= tol


def entries_of(H):
    """H(t) as {(r, c): SCplx} - from the stand-in (dict) or a real Qobj (concrete replay)."""
    if isinstance(H, dict):
        return H
    m = H.full()
    return {(int(r), int(c)): SCplx(float(m[r, c].real), float(m[r, c].imag)) for r, c in zip(*np.nonzero(m))}


def h_program(shape):
    P = PROGRAMS[shape["program"]]

    def h(inp):
        stubs.bind(inp)
        import pulser
        from pulser_simulation import QutipEmulator

        seq = pulser.Sequence(mk_reg(P["reg"]), l2.mk_device(P["device"], inp))
        if "mag" in P:
            seq.set_magnetic_field(*P["mag"])
        l2.run_prefix(inp, seq, P["prog"])
        rate = shape.get("rate", 1.0)
        if shape.get("reconfig") == "leakage_before":
            # an EARLIER emulator of the same sequence, configured with a leakage state: emulators are independent objects,
            # the one built afterwards with the default configuration has the documented states only
            import qutip
            from pulser_simulation import SimConfig

            QutipEmulator.from_sequence(seq, config=SimConfig(noise=("leakage", "eff_noise"), eff_noise_rates=[0.1],
                                                                eff_noise_opers=[qutip.Qobj(np.diag([1.0, 0.0, 0.0]))]))
        big = None
        if shape.get("superset"):
            # the emulator is given a register of its own: the sequence's atoms plus one more (Global channels drive every
            # atom of THAT register, every pair of its atoms interacts)
            import pulser

            cur = {q: c.as_array(detach=True) for q, c in seq.register.qubits.items()}
            dim = len(next(iter(cur.values())))
            big = type(seq.register)({**cur, "extra": (6.0, 9.0) + (0.0,) * (dim - 2)})
            em = QutipEmulator(pulser.sampler.sample(seq), big, seq.device, sampling_rate=rate)
        else:
            em = QutipEmulator.from_sequence(seq, sampling_rate=rate)
        if shape.get("reconfig") == "spam_then_spam_eta0":
            # a noisy configuration with badly prepared atoms, then SPAM noise WITHOUT preparation errors (eta=0): every atom is there
            from pulser_simulation import SimConfig

            em.set_config(SimConfig(noise="SPAM", eta=0.5, runs=1, samples_per_run=1))
            em.set_config(SimConfig(noise="SPAM", eta=0.0, epsilon=0.01, epsilon_prime=0.05, runs=1, samples_per_run=1))
        elif shape.get("reconfig") == "spam_then_reset":
            # a noisy configuration (one atom badly prepared, see _FixedRandom) and back: the default configuration's
            # Hamiltonian is the documented one again, whatever was configured in between
            from pulser_simulation import SimConfig

            em.set_config(SimConfig(noise="SPAM", eta=0.5, runs=1, samples_per_run=1))
            em.reset_config()
        elif shape.get("reconfig") == "dephasing":
            from pulser_simulation import SimConfig

            em.set_config(SimConfig(noise="dephasing"))
        elif shape.get("reconfig") == "noiseless_view":
            pass
        orc = Oracle(seq, big)
        used = orc.used_bases()
        eig = orc.eigen(used)
        d = len(eig)
        obs = []
        # ---- state ordering
        basis_ok = em.dim == d and em.basis_name == orc.basis_name(used) and set(em.basis) == set(eig)
        if basis_ok:
            for k, s in enumerate(eig):
                v = em.basis[s].full().ravel()
                basis_ok = basis_ok and len(v) == d and all(abs(v[m] - (1.0 if m == k else 0.0)) < 1e-12 for m in range(d))
        obs.append(("ham:basis", bool(basis_ok)))
        if not basis_ok:
            return obs
        obs.append(("ham:duration", em._tot_duration == orc.T))
        resid = orc.residual_phase_times()
        Z = SCplx(0.0, 0.0)

        def compare(code, ref, scale):
            off, diag = [], []
            for k in sorted(set(code) | set(ref)):
                c, r = code.get(k, Z), ref.get(k, Z)
                tol = TOL + 1e-9 * scale.get(k, 0.0)
                (diag if k[0] == k[1] else off).append(AND(close(c.re, r.re, tol), close(c.im, r.im, tol)))
            return (AND(*off) if off else True), (AND(*diag) if diag else True)

        times = [int(round(float(x) * 1000)) for x in em.sampling_times]
        obs.append(("ham:sampled_times", times[0] == 0 and times[-1] == orc.T and all(a < b for a, b in zip(times, times[1:]))
                    and (rate != 1.0 or times == list(range(orc.T + 1)))))
        by_time = {}
        for (q_, b_, t_) in orc.drive:
            by_time.setdefault(t_, None)
        seen = {}
        for t in times:
            if t >= orc.T:
                continue
            code = entries_of(em.get_hamiltonian(t, noiseless=True) if shape.get("reconfig") == "noiseless_view" else em.get_hamiltonian(t))
            okey = (id(code) if isinstance(em._hamiltonian._hamiltonian, SymEvo) else t, orc.key(t))
            if okey in seen and t not in resid:
                # same matrix, same reference as at an earlier time: the obligations would be the very same terms
                continue
            seen[okey] = t
            ref, scale = orc.hamiltonian(t, eig, used)
            off, diag = compare(code, ref, scale)
            herm = []
            for k in sorted(code):
                c, ct = code[k], code.get((k[1], k[0]), Z)
                herm.append(AND(close(c.re, ct.re, 1e-12), close(c.im, -ct.im, 1e-12)))
            if t in resid:
                # delimit known finding F17: the deviation is exactly "phases of the other Global channels of the basis added"
                lab = "ham:offdiag_other_global_channel_phase#%d" % t
                extra = {}
                for n in orc.glob_names:
                    b = seq._schedule[n].channel_obj.basis
                    extra[n] = sum(float(core._np_item(list(em.samples_obj.channel_samples[m_].phase.as_array(detach=True).flat)[t]))
                                   for m_ in orc.glob_names if m_ != n and seq._schedule[m_].channel_obj.basis == b)
                ref2, _ = orc.hamiltonian(t, eig, used, extra_phase=extra)
                inp.publish("phases_of_other_global_channels_added@" + lab, compare(code, ref2, scale)[0])
                obs.append((lab, off))
            else:
                obs.append(("ham:offdiag", off))
            obs.append(("ham:diag", diag))
            obs.append(("ham:hermitian", AND(*herm) if herm else True))
        return obs

    return h


def kernels(tier):
    names = QUICK if tier == "quick" else list(PROGRAMS)
    ks = [("ham", dict(program=n)) for n in names]
    # the Hamiltonian on a coarser grid: at every time of the emulator's own sampling grid it is still the formula
    sub = [("xy_slm", 0.5), ("ising_all", 0.7)] if tier == "quick" else [
        (n, r) for n in PROGRAMS for r in (0.5, 0.31) if not (r == 0.31 and n in ("idle", "ramp_local"))]  # (the emulator needs >= 4 points)
    ks += [("ham", dict(program=n, rate=r)) for n, r in sub]
    # the Hamiltonian after configuration changes / through the noiseless view (collapse operators do not enter H)
    rec = [("perm", "spam_then_reset"), ("xy_plain", "spam_then_reset"), ("two_glob", "noiseless_view"), ("dmm", "dephasing"),
           ("idle", "leakage_before"), ("digital", "leakage_before"), ("perm", "spam_then_spam_eta0"), ("xy_plain", "spam_then_spam_eta0")]
    ks += [("ham", dict(program=n, superset=True)) for n in (("xy_slm", "ising_all") if tier == "quick" else ("xy_slm", "xy_slm2", "ising_all", "slm_ising", "digital", "dmm"))]
    if tier != "quick":
        rec += [(n, r) for n in ("ising_all", "digital", "slm_ising", "xy_slm", "glob_then_local") for r in ("spam_then_reset", "noiseless_view", "dephasing")]
    return ks + [("ham", dict(program=n, reconfig=r)) for n, r in rec]


def harness(kernel, shape):
    return h_program(shape)
