"""L1: one real _Schedule operation from an arbitrary state satisfying Inv.

Shared by C02 (tiling/clock/min-duration/prefix/duration), C03 (protocol
start time, minimality), C10 (phase-jump gap, retarget rules), C01-K6
(max sequence duration), C09 (raise => unchanged), C15-K2 (EOM buffers).

The pre-state is *constructed directly* (slot lists of proxies) under the
representation invariant ``inv``; the same ``inv`` function generates the
assumptions on the pre-state and the obligations on the post-state, so the
step is inductive by construction of the check.
"""
from __future__ import annotations

import itertools

from symx import core, facade, stubs
from symx.core import AND, IMPLIES, ITE, NOT, OR, is_sym, smax

PHASES = {"A": 0.0, "B": 1.0}


def setup():
    facade.install()
    stubs.init()
    stubs.install_buffer_stub()


def setup_concrete():
    stubs.init()
    stubs.install_buffer_stub()


# --------------------------------------------------------------------------
# state construction
# --------------------------------------------------------------------------


def mk_channel(inp, name, cfg):
    from pulser.channels import Rydberg

    clock = cfg["clock"]
    kw = dict(clock_period=clock, min_duration=inp.int(name + ".min_duration", 1, None))
    if cfg.get("maxd"):
        kw["max_duration"] = inp.int(name + ".max_duration", 1, None)
        inp.assume(kw["max_duration"] >= kw["min_duration"])
    else:
        kw["max_duration"] = None
    tr = inp.int(name + ".tr", 1, None) if cfg.get("mod", True) else None
    if cfg.get("pj") == "custom":
        kw["custom_phase_jump_time"] = inp.int(name + ".pjt", 0, None)
    eom = None
    if cfg.get("eom"):
        cb = inp.int(name + ".eom_buffer", 1, None) if cfg["eom"].get("custom_buffer") else None
        eom_tr = inp.int(name + ".eom_tr", 1, None)
        # documented: the EOM has a *higher* bandwidth than the channel, i.e.
        # its rise time is not longer (configuration precondition, DESIGN C15)
        inp.assume(eom_tr <= tr)
        eom = stubs.sym_eom(eom_tr, custom_buffer_time=cb)
        kw["eom_config"] = eom
    if cfg.get("local"):
        ch = stubs.sym_channel(
            Rydberg, "Local", tr, None, None,
            min_retarget_interval=inp.int(name + ".min_retarget", 0, None),
            fixed_retarget_t=inp.int(name + ".fixed_retarget", 0, None), **kw)
    else:
        ch = stubs.sym_channel(Rydberg, "Global", tr, None, None, **kw)
    return ch


def mk_slots(inp, name, cfg, ch, targets_a, targets_b):
    """Slot list of proxies: initial target + cfg['slots'] kinds."""
    from pulser.pulse import Pulse
    from pulser.sequence._schedule import _TimeSlot

    clock = cfg["clock"]
    slots = [_TimeSlot("target", -1, 0, set(targets_a))]
    cur_targets = set(targets_a)
    t = 0
    for i, kind in enumerate(cfg.get("slots", [])):
        d = inp.mult("%s.s%d.dur" % (name, i), clock, 0 if kind == "target" else clock, None)
        ti, tf = t, t + d
        if kind == "delay":
            typ = "delay"
        elif kind in ("pulseA", "pulseB"):
            typ = stubs.StubPulse("%s.s%d" % (name, i), d, PHASES[kind[-1]])
        elif kind in ("ddelayA", "ddelayB"):
            typ = Pulse.ConstantPulse(d, 0.0, cfg.get("det_off", -1.5), PHASES[kind[-1]])
        elif kind == "target":
            typ = "target"
            cur_targets = set(targets_b) if cur_targets == set(targets_a) else set(targets_a)
        else:
            raise ValueError(kind)
        slots.append(_TimeSlot(typ, ti, tf, set(cur_targets)))
        t = tf
    return slots


def mk_schedule(inp, shape):
    from pulser.sequence._schedule import _ChannelSchedule, _EOMSettings, _Schedule
    import pulser.math as pm

    maxdur = inp.int("max_sequence_duration", 1, None) if shape.get("maxseq") else None
    sched = _Schedule(maxdur)
    infos = {}
    for name in ("own", "other", "third"):
        cfg = shape.get(name)
        if cfg is None:
            continue
        ch = mk_channel(inp, name, cfg)
        cs = _ChannelSchedule(name, ch)
        ta = cfg.get("targets_a", ["q0"])
        tb = cfg.get("targets_b", ["q1"])
        cs.slots = mk_slots(inp, name, cfg, ch, ta, tb)
        e = cfg.get("eom")
        if e and e.get("blocks"):
            for (i_from, i_to) in e["blocks"]:
                # block starts at the end of slot i_from, ends at end of slot
                # i_to (None: still open)
                cs.eom_blocks.append(_EOMSettings(
                    rabi_freq=pm.AbstractArray(1.0), detuning_on=pm.AbstractArray(0.0),
                    detuning_off=pm.AbstractArray(cfg.get("det_off", 0.0)),
                    ti=cs.slots[i_from].tf, tf=(None if i_to is None else cs.slots[i_to].tf)))
        sched[name] = cs
        infos[name] = dict(cfg=cfg, ch=ch)
    return sched, infos


# --------------------------------------------------------------------------
# reference predicates
# --------------------------------------------------------------------------


def is_pulse(s):
    from pulser.pulse import Pulse

    return isinstance(s.type, Pulse)


def slot_in_eom(cs, idx):
    """Reference: is slot idx inside an EOM block (by block boundaries)."""
    s = cs.slots[idx]
    terms = []
    for b in cs.eom_blocks:
        end = b.tf if b.tf is not None else cs.slots[-1].tf + 1
        terms.append(AND(b.ti <= s.ti, s.ti < end))
    return OR(*terms) if terms else False


def fall_of(cs, idx, eom_flag):
    """fall time of the pulse in slot idx (real Pulse.fall_time on the
    stubbed buffers) for a concrete eom flag."""
    return cs.slots[idx].type.fall_time(cs.channel_obj, in_eom_mode=eom_flag)


def fall_end(cs, idx, eom_flag):
    return cs.slots[idx].tf + fall_of(cs, idx, eom_flag)


def ref_phase_jump_time(ch):
    """Reference (documented): custom_phase_jump_time when defined, else two times the rise time."""
    c = ch.custom_phase_jump_time
    return c if c is not None else 2 * ch.rise_time


def ref_eom_buffer_time(ch):
    """Reference (documented): the EOM buffer lasts the configured custom_buffer_time, else twice the channel's rise time."""
    cb = ch.eom_config.custom_buffer_time
    return cb if cb is not None and not (not is_sym(cb) and cb == 0) else 2 * ch.rise_time


def ref_is_detuned_delay(pulse):
    """Reference (not the implementation's): a delay with a constant detuning is a Pulse whose amplitude is a
    ConstantWaveform of value 0 and whose detuning is a ConstantWaveform."""
    from pulser.pulse import Pulse
    from pulser.waveforms import ConstantWaveform

    if not isinstance(pulse, Pulse) or type(pulse.amplitude) is not ConstantWaveform or type(pulse.detuning) is not ConstantWaveform:
        return False
    v = facade._unwrap0(pulse.amplitude._value)
    return (v == 0.0) if not is_sym(v) else bool(v == 0.0)


def last_pulse_idx(cs, before=None, skip_ddelay=False):
    n = len(cs.slots) if before is None else before
    for i in range(n - 1, -1, -1):
        if is_pulse(cs.slots[i]):
            if skip_ddelay and ref_is_detuned_delay(cs.slots[i].type):
                continue
            return i
    return None


def inv(cs, cfg, eom_slots=None):
    """Representation invariant of one channel schedule -> [(label, term)].

    eom_slots: for each slot index, a concrete bool telling whether the slot
    lies in an EOM block (known from the shape for the pre-state); None =>
    derive from block boundaries (post-state).
    """
    out = []
    ch = cs.channel_obj
    clock = cfg["clock"]
    slots = cs.slots
    if not slots:
        return out
    s0 = slots[0]
    out.append(("first", AND(s0.type == "target", s0.ti == -1, s0.tf == 0)))
    last_target_tf = 0
    for i in range(1, len(slots)):
        s, p = slots[i], slots[i - 1]
        out.append(("contiguous", s.ti == p.tf))
        out.append(("order", s.tf >= s.ti))
        out.append(("clock", s.tf % clock == 0 if clock != 1 else True))
        d = s.tf - s.ti
        if is_pulse(s):
            out.append(("pulse_len", d == s.type.duration))
            out.append(("pulse_min", d >= ch.min_duration))
            out.append(("same_targets", s.targets == p.targets))
        elif s.type == "delay":
            out.append(("delay_min", d >= ch.min_duration))
            out.append(("same_targets", s.targets == p.targets))
        elif s.type == "target":
            out.append(("retarget_len", OR(d == 0, d >= ch.min_duration)))
            lp = last_pulse_idx(cs, before=i)
            if lp is not None:
                out.append(("retarget_after_fall", s.ti >= fall_end(cs, lp, False)))
            out.append(("retarget_interval", s.tf - last_target_tf >= ch.min_retarget_interval))
            out.append(("retarget_fixed", IMPLIES(NOT(ch.fixed_retarget_t == 0), d >= ch.fixed_retarget_t)))
            out.append(("retarget_changes", s.targets != p.targets))
            last_target_tf = s.tf
        else:
            out.append(("kind", False))
        if ch.max_duration is not None and not (s.type == "target"):
            out.append(("max_len", d <= ch.max_duration))
    # EOM blocks: ordered, disjoint, closed except maybe the last
    blocks = cs.eom_blocks
    for j, b in enumerate(blocks):
        if j < len(blocks) - 1:
            out.append(("eom_closed", b.tf is not None))
        if b.tf is not None:
            out.append(("eom_order", b.tf >= b.ti))
            if j + 1 < len(blocks):
                out.append(("eom_disjoint", blocks[j + 1].ti >= b.tf))
        out.append(("eom_boundary", OR(*[b.ti == s.tf for s in slots])))
        if b.tf is not None:
            out.append(("eom_boundary_end", OR(*[b.tf == s.tf for s in slots])))
    return out


def snapshot(sched):
    return {name: (list(cs.slots), [(b.ti, b.tf, b.detuning_off) for b in cs.eom_blocks]) for name, cs in sched.items()}


def unchanged(sched, snap):
    terms = []
    for name, cs in sched.items():
        old_slots, old_blocks = snap[name]
        terms.append(len(cs.slots) == len(old_slots) and all(a is b for a, b in zip(cs.slots, old_slots)))
        terms.append(len(cs.eom_blocks) == len(old_blocks))
        for b, ob in zip(cs.eom_blocks, old_blocks):
            terms.append((b.tf is None) == (ob[1] is None))
            if b.tf is not None and ob[1] is not None:
                terms.append(b.tf == ob[1])
            terms.append(b.ti == ob[0])
    return AND(*terms)


def only_delays_appended(sched, snap, allow_block_close=False):
    """Region of finding F9 at scheduler level: everything is unchanged
    except delay slot(s) appended to a channel (and, optionally, the open EOM
    block having been closed)."""
    terms = []
    for name, cs in sched.items():
        old_slots, old_blocks = snap[name]
        if len(cs.slots) < len(old_slots) or not all(a is b for a, b in zip(cs.slots, old_slots)):
            return False
        if any(not (s.type == "delay" or (is_pulse(s) and ref_is_detuned_delay(s.type))) for s in cs.slots[len(old_slots):]):
            return False
        if len(cs.eom_blocks) != len(old_blocks):
            return False
        for j, (b, ob) in enumerate(zip(cs.eom_blocks, old_blocks)):
            if (b.tf is None) != (ob[1] is None):
                if allow_block_close and j == len(old_blocks) - 1 and ob[1] is None:
                    terms.append(b.ti == ob[0])
                    continue
                return False
            if b.tf is not None:
                terms.append(b.tf == ob[1])
            terms.append(b.ti == ob[0])
    return AND(*terms) if terms else True


def ref_duration_with_fall(cs):
    """Reference for get_duration(include_fall_time=True): the later of the
    end of the last slot and the end of the last pulse's fall (computed, as
    the implementation documents, with the channel's current EOM mode)."""
    last_tf = cs.slots[-1].tf if cs.slots else 0
    lp = last_pulse_idx(cs)
    if lp is None:
        return last_tf
    return smax(last_tf, fall_end(cs, lp, cs.in_eom_mode()))


# --------------------------------------------------------------------------
# the step harness
# --------------------------------------------------------------------------


def adjust_ref(x, ch, clock):
    """Reference for adjust_duration: smallest clock multiple >= max(x, min)."""
    m = smax(x, ch.min_duration)
    return m + ((-m) % clock) if clock != 1 else m


def step_harness(shape):
    def h(inp):
        stubs.bind(inp)
        from pulser.sequence._schedule import _TimeSlot

        sched, infos = mk_schedule(inp, shape)
        own = sched["own"]
        ocfg = shape["own"]
        ch = own.channel_obj
        clock = ocfg["clock"]
        # ---- assume Inv on every channel
        for name, cs in sched.items():
            for label, term in inv(cs, shape[name]):
                inp.assume(term)
        if sched.max_duration is not None:
            for cs in sched.values():
                inp.assume(cs.slots[-1].tf <= sched.max_duration)
        snap = snapshot(sched)
        old = {n: list(cs.slots) for n, cs in sched.items()}
        t0 = own.slots[-1].tf
        op = shape["op"]
        obs = []
        raised = None
        new_pulse = None
        try:
            if op[0] == "add_pulse":
                proto, ph = op[1], op[2]
                dur = inp.mult("new.dur", clock, clock, None)
                inp.assume(dur >= ch.min_duration)
                if ch.max_duration is not None:
                    inp.assume(dur <= ch.max_duration)
                new_pulse = stubs.StubPulse("new", dur, PHASES[ph])
                barriers = [inp.int("barrier%d" % i, 0, None) for i in range(shape.get("nbarriers", 1))]
                sched.add_pulse(new_pulse, "own", barriers, proto)
            elif op[0] == "add_delay":
                dur = inp.int("new.delay", None, None)
                sched.add_delay(dur, "own")
            elif op[0] == "add_target":
                cur = own.slots[-1].targets
                ta, tb = set(ocfg.get("targets_a", ["q0"])), set(ocfg.get("targets_b", ["q1"]))
                new_t = set(cur) if op[1] == "same" else (tb if cur == ta else ta)
                sched.add_target(new_t, "own")
            elif op[0] == "wait_for_fall":
                sched.wait_for_fall("own")
            elif op[0] == "enable_eom":
                import pulser.math as pm

                sched.enable_eom("own", pm.AbstractArray(1.0), pm.AbstractArray(0.0), pm.AbstractArray(op[1]))
            elif op[0] == "disable_eom":
                sched.disable_eom("own")
            elif op[0] == "modify_eom":
                import pulser.math as pm

                # what Sequence.modify_eom_setpoint does at scheduler level
                sched.disable_eom("own", _skip_buffer=True)
                sched.enable_eom("own", pm.AbstractArray(2.0), pm.AbstractArray(0.0), pm.AbstractArray(op[1]),
                                 _skip_wait_for_fall=True)
            else:
                raise ValueError(op)
        except (ValueError, RuntimeError, TypeError) as e:
            raised = e

        if raised is not None:
            obs.append(("c09:raise_unchanged", unchanged(sched, snap)))
            inp.publish("l1_only_delays_left_behind", only_delays_appended(sched, snap))
            inp.publish("l1_only_delays_and_block_close_left_behind", only_delays_appended(sched, snap, True))
            # a refusal must have a cause: delays below min / above max, or
            # the sequence would exceed the device's maximum duration
            obs.append(("c01:refusal_has_cause", refusal_cause(inp, sched, shape, old, op, t0, locals())))
            return obs

        # ---- C02: Inv again, prefix identity, durations
        for name, cs in sched.items():
            for label, term in inv(cs, shape[name]):
                obs.append(("c02:inv_" + label, term))
            o = old[name]
            obs.append(("c02:prefix", len(cs.slots) >= len(o) and all(a is b for a, b in zip(cs.slots, o))))
            obs.append(("c02:duration", cs.get_duration() == cs.slots[-1].tf))
            obs.append(("c02:duration_fall", cs.get_duration(include_fall_time=True) == ref_duration_with_fall(cs)))
        obs.append(("c02:seq_duration", sched.get_duration() == smax([cs.slots[-1].tf for cs in sched.values()])))
        obs.append(("c02:seq_duration_fall", sched.get_duration(include_fall_time=True) == smax([ref_duration_with_fall(cs) for cs in sched.values()])))
        if sched.max_duration is not None:
            for cs in sched.values():
                obs.append(("c01:max_sequence_duration", cs.slots[-1].tf <= sched.max_duration))
        for name, cs in sched.items():
            if name != "own":
                obs.append(("c02:other_untouched", len(cs.slots) == len(old[name])))

        new_slots = own.slots[len(old["own"]):]
        if op[0] == "add_pulse":
            obs += pulse_obligations(inp, sched, shape, old, new_slots, new_pulse, barriers, t0)
        elif op[0] == "add_delay":
            obs.append(("c02:delay_one_slot", len(new_slots) == 1 and (
                new_slots[0].type == "delay" or (is_pulse(new_slots[0]) and ref_is_detuned_delay(new_slots[0].type)))))
            if len(new_slots) == 1:
                d = new_slots[0].tf - new_slots[0].ti
                obs.append(("c01:delay_rounding", AND(d >= dur, d < dur + clock, dur >= ch.min_duration)))
        elif op[0] == "add_target":
            obs += target_obligations(inp, sched, shape, old, new_slots, t0, op[1])
        elif op[0] == "wait_for_fall":
            obs += wait_obligations(inp, sched, shape, old, new_slots, t0)
        elif op[0] in ("enable_eom", "disable_eom", "modify_eom"):
            obs += eom_obligations(inp, sched, shape, old, snap, new_slots, t0)
        if _chan_in_eom(ocfg) and op[0] == "add_delay" and len(new_slots) == 1:
            # idle time in EOM mode sits at the off-detuning
            det_off = ocfg.get("det_off", 0.0)
            sl = new_slots[0]
            if det_off == 0:
                obs.append(("c15:eom_delay_plain", sl.type == "delay"))
            else:
                obs.append(("c15:eom_delay_detuned", is_pulse(sl) and ref_is_detuned_delay(sl.type)
                            and float(sl.type.detuning[0]) == det_off))
        return obs

    return h


def over_seq(sched, t):
    return False if sched.max_duration is None else t > sched.max_duration


def over_len(ch, d):
    return False if ch.max_duration is None else d > ch.max_duration


def refusal_cause(inp, sched, shape, old, op, t0, loc):
    """Reference: the only legitimate reasons for a scheduler refusal."""
    own = sched["own"]
    ch = own.channel_obj
    clock = shape["own"]["clock"]
    if op[0] == "add_pulse":
        exp, raw = expected_start(sched, shape, old, loc["barriers"], t0, obs=None)
        return OR(over_seq(sched, exp + loc["dur"]), AND(raw > 0, over_len(ch, adjust_ref(raw, ch, clock))),
                  AND(raw > 0, over_len(ch, smax(raw, ch.min_duration))))
    if op[0] == "add_delay":
        d = loc["dur"]
        r = d + ((-d) % clock) if clock != 1 else d
        return OR(d < ch.min_duration, over_len(ch, d), over_seq(sched, t0 + r))
    lp = last_pulse_idx(own)
    fall = 0 if lp is None else smax(fall_end(own, lp, own.in_eom_mode()) - t0, 0)
    fd = ITE(fall > 0, adjust_ref(fall, ch, clock), 0)
    c_fall = AND(fall > 0, OR(over_seq(sched, t0 + fd), over_len(ch, fd), over_len(ch, smax(fall, ch.min_duration))))
    if op[0] == "wait_for_fall":
        return c_fall
    buf = adjust_ref(ref_eom_buffer_time(ch), ch, clock) if ch.eom_config is not None else 0
    if op[0] == "enable_eom":
        if len(old["own"]) <= 1:
            return False  # empty channel: nothing is added, nothing can be refused
        return OR(c_fall, over_seq(sched, t0 + fd + buf), over_len(ch, buf))
    if op[0] == "modify_eom":
        if len(old["own"]) <= 1:
            return False
        return OR(over_seq(sched, t0 + buf), over_len(ch, buf))
    if op[0] == "disable_eom":
        if shape["own"]["eom"].get("custom_buffer"):
            return OR(over_seq(sched, t0 + buf), over_len(ch, buf))
        lp2 = last_pulse_idx(own)
        fall2 = 0 if lp2 is None else smax(fall_end(own, lp2, False) - t0, 0)
        fd2 = ITE(fall2 > 0, adjust_ref(fall2, ch, clock), 0)
        return AND(fall2 > 0, OR(over_seq(sched, t0 + fd2), over_len(ch, fd2)))
    if op[0] == "add_target":
        if op[1] == "same":
            return c_fall
        prev_target_tf = 0
        for s_ in old["own"]:
            if s_.type == "target":
                prev_target_tf = s_.tf
        ti = t0 + fd
        want = smax(smax(ch.min_retarget_interval - (ti - prev_target_tf), 0), ch.fixed_retarget_t)
        d = ITE(want > 0, adjust_ref(want, ch, clock), 0)
        return OR(c_fall, over_seq(sched, ti + d), AND(want > 0, over_len(ch, d)),
                  AND(want > 0, over_len(ch, smax(want, ch.min_duration))))
    return False


def pulse_obligations(inp, sched, shape, old, new_slots, new_pulse, barriers, t0):
    obs = []
    own = sched["own"]
    ch = own.channel_obj
    ocfg = shape["own"]
    clock = ocfg["clock"]
    proto, ph = shape["op"][1], shape["op"][2]
    ps = new_slots[-1]
    obs.append(("c02:pulse_is_last", ps.type is new_pulse))
    obs.append(("c02:pulse_new_slots", len(new_slots) in (1, 2)))
    s = ps.ti
    if len(new_slots) == 2:
        d0 = new_slots[0]
        if _chan_in_eom(ocfg) and ocfg.get("det_off", 0.0) != 0:
            obs.append(("c02:pulse_delay_first", is_pulse(d0) and ref_is_detuned_delay(d0.type)))
        else:
            obs.append(("c02:pulse_delay_first", d0.type == "delay"))
    bmax = smax([0] + list(barriers))
    expect, raw = expected_start(sched, shape, old, barriers, t0, obs=obs, s=s)
    # minimality / exact start (C03)
    obs.append(("c03:start_exact", s == expect))
    obs.append(("c03:start_ge_barrier", s >= bmax))
    if proto == "no-delay":
        raw_nd = smax(t0, bmax) - t0
        obs.append(("c03:no_delay_start", s == ITE(raw_nd > 0, t0 + adjust_ref(raw_nd, ch, clock), t0)))
    return obs


def expected_start(sched, shape, old, barriers, t0, obs=None, s=None):
    """Reference earliest admissible start of the new pulse, from the
    pre-call state (property C03 / C10 wording)."""
    own = sched["own"]
    ch = own.channel_obj
    clock = shape["own"]["clock"]
    proto, ph = shape["op"][1], shape["op"][2]
    bmax = smax([0] + list(barriers))
    need = smax(t0, bmax)
    old_own = old["own"]
    targets = old_own[-1].targets
    if proto != "no-delay":
        for name, cs in sched.items():
            if name == "own":
                continue
            # most recent pulse of that channel (sharing a target for
            # min-delay; any for wait-for-all)
            o = old[name]
            for i in range(len(o) - 1, -1, -1):
                sl = o[i]
                if is_pulse(sl) and (proto == "wait-for-all" or (sl.targets & targets)):
                    fe = fall_end(cs, i, _slot_eom_flag(shape[name], i))
                    if obs is not None:
                        obs.append(("c03:no_conflict", s >= fe))
                    need = smax(need, fe)
                    break
    # phase jump (C10)
    pj_need = 0
    if proto != "no-delay":
        lp = None
        for i in range(len(old_own) - 1, -1, -1):
            if is_pulse(old_own[i]) and not ref_is_detuned_delay(old_own[i].type):
                lp = i
                break
        if lp is not None and float(old_own[lp].type.phase) != PHASES[ph]:
            in_eom = bool(_chan_in_eom(shape["own"]))
            pjt = ref_phase_jump_time(ch)
            if in_eom:
                pjt = smax(pjt, 2 * ch.rise_time)
            gap_need = pjt + fall_of(own, lp, in_eom)
            if obs is not None:
                obs.append(("c10:phase_jump_gap", s - old_own[lp].tf >= gap_need))
            pj_need = old_own[lp].tf + gap_need
    raw = smax(need, pj_need) - t0
    expect = ITE(raw > 0, t0 + adjust_ref(raw, ch, clock), t0)
    return expect, raw


def _slot_eom_flag(cfg, idx):
    e = cfg.get("eom")
    if not e or not e.get("blocks"):
        return False
    for (i_from, i_to) in e["blocks"]:
        if idx > i_from and (i_to is None or idx <= i_to):
            return True
    return False


def _chan_in_eom(cfg):
    e = cfg.get("eom")
    return bool(e and e.get("blocks") and e["blocks"][-1][1] is None)


def target_obligations(inp, sched, shape, old, new_slots, t0, which):
    obs = []
    own = sched["own"]
    ch = own.channel_obj
    clock = shape["own"]["clock"]
    old_own = old["own"]
    lp = last_pulse_idx(own, before=len(old_own))
    if which == "same":
        # retargeting to the same atoms inserts no target instruction
        obs.append(("c10:same_target_no_retarget", all(s.type != "target" for s in new_slots)))
        # "retargeting to the same atoms inserts nothing": no slot at all, not even a wait for a pending fall time
        obs.append(("c10:same_target_inserts_nothing", len(new_slots) == 0))
        return obs
    obs.append(("c10:retarget_slot", len(new_slots) in (1, 2) and new_slots[-1].type == "target"))
    ts = new_slots[-1]
    if lp is not None:
        obs.append(("c10:retarget_after_fall", ts.ti >= fall_end(own, lp, False)))
    prev_target_tf = 0
    for s in old_own:
        if s.type == "target":
            prev_target_tf = s.tf
    obs.append(("c10:retarget_interval", ts.tf - prev_target_tf >= ch.min_retarget_interval))
    d = ts.tf - ts.ti
    obs.append(("c10:retarget_fixed", d >= ch.fixed_retarget_t))
    # exactness: the retarget is no longer than needed
    elapsed = ts.ti - prev_target_tf
    want = smax(smax(ch.min_retarget_interval - elapsed, 0), ch.fixed_retarget_t)
    obs.append(("c10:retarget_minimal", d == ITE(want > 0, adjust_ref(want, ch, clock), 0)))
    return obs


def eom_obligations(inp, sched, shape, old, snap, new_slots, t0):
    """C15-K2: EOM blocks start/end on slot boundaries, buffers of the
    configured length separate them from ordinary operation, after the
    previous pulse has ramped down."""
    obs = []
    own = sched["own"]
    ch = own.channel_obj
    ocfg = shape["own"]
    clock = ocfg["clock"]
    op = shape["op"]
    old_own = old["own"]
    old_blocks = snap["own"][1]
    buf_len = adjust_ref(ref_eom_buffer_time(ch), ch, clock)
    was_in_eom = _chan_in_eom(ocfg)
    lp = last_pulse_idx(own, before=len(old_own))
    if op[0] in ("enable_eom", "modify_eom"):
        det_off = op[1]
        obs.append(("c15:block_opened", len(own.eom_blocks) == len(old_blocks) + (0 if False else 1) and own.eom_blocks[-1].tf is None))
        nb = own.eom_blocks[-1]
        obs.append(("c15:block_starts_at_end", nb.ti == own.slots[-1].tf))
        obs.append(("c15:block_setpoint", float(nb.detuning_off) == det_off))
        if op[0] == "modify_eom":
            obs.append(("c15:old_block_closed_at_old_end", own.eom_blocks[-2].tf == t0))
        nonempty = len(old_own) > 1  # something after the initial target => duration > 0
        if not nonempty:
            obs.append(("c15:no_buffer_on_empty_channel", len(new_slots) == 0))
        else:
            obs.append(("c15:buffer_present", len(new_slots) >= 1))
            if new_slots:
                b = new_slots[-1]
                obs.append(("c15:buffer_length", b.tf - b.ti == buf_len))
                if det_off == 0:
                    obs.append(("c15:buffer_plain_delay", b.type == "delay"))
                else:
                    obs.append(("c15:buffer_detuned", is_pulse(b) and ref_is_detuned_delay(b.type)
                                and float(b.type.detuning[0]) == det_off))
                if op[0] == "enable_eom" and lp is not None:
                    # the buffer starts only after the previous pulse's fall
                    obs.append(("c15:buffer_after_fall", b.ti >= fall_end(own, lp, False)))
                if op[0] == "modify_eom":
                    obs.append(("c15:modify_only_buffer", len(new_slots) == 1 and b.ti == t0))
    else:  # disable_eom
        obs.append(("c15:block_closed", own.eom_blocks[-1].tf is not None))
        if own.eom_blocks[-1].tf is not None:
            obs.append(("c15:block_ends_at_old_end", own.eom_blocks[-1].tf == t0))
        custom = bool(ocfg["eom"].get("custom_buffer"))
        if custom:
            obs.append(("c15:disable_buffer", len(new_slots) == 1 and new_slots[0].type == "delay"
                        and (new_slots[0].tf - new_slots[0].ti == buf_len)))
        elif lp is not None:
            obs.append(("c15:disable_waits_fall", own.slots[-1].tf >= fall_end(own, lp, False)))
    return obs


def wait_obligations(inp, sched, shape, old, new_slots, t0):
    obs = []
    own = sched["own"]
    obs.append(("c02:wait_slots", len(new_slots) <= 1 and all(s.type == "delay" or is_pulse(s) for s in new_slots)))
    lp = last_pulse_idx(own, before=len(old["own"]))
    if lp is not None:
        obs.append(("c10:wait_covers_fall", own.slots[-1].tf >= fall_end(own, lp, own.in_eom_mode())))
    return obs


# --------------------------------------------------------------------------
# shape families
# --------------------------------------------------------------------------

BASIC_KINDS = ["delay", "pulseA", "pulseB"]


def own_slot_lists(maxlen, local):
    kinds = BASIC_KINDS + (["target"] if local else [])
    for n in range(0, maxlen + 1):
        for combo in itertools.product(kinds, repeat=n):
            yield list(combo)


def step_shapes(tier):
    quick = tier == "quick"
    shapes = []
    clocks = [1, 4] if quick else [1, 2, 4, 8]
    maxlen = 2 if quick else 3
    ops_global = [["add_pulse", p, ph] for p in ("min-delay", "no-delay", "wait-for-all") for ph in ("A", "B")]
    ops_global += [["add_delay"], ["wait_for_fall"]]
    ops_local = ops_global + [["add_target", "same"], ["add_target", "diff"]]
    for clock in clocks:
        for local in (False, True):
            for slots in own_slot_lists(maxlen, local):
                for op in (ops_local if local else ops_global):
                    for pj in ("custom", "derived"):
                        shapes.append(dict(
                            own=dict(clock=clock, local=local, slots=slots, mod=True, pj=pj,
                                     targets_a=["q0"], targets_b=["q1"]),
                            op=op, maxseq=True, nbarriers=1))
    # a symbolic channel max_duration (not necessarily a clock multiple), also in the quick tier
    if quick:
        for local in (False, True):
            for slots in own_slot_lists(1, local):
                for op in (["add_pulse", "min-delay", "A"], ["add_pulse", "no-delay", "B"], ["add_delay"]) + ((["add_target", "diff"],) if local else ()):
                    shapes.append(dict(own=dict(clock=4, local=local, slots=slots, mod=True, pj="custom", maxd=True,
                                                targets_a=["q0"], targets_b=["q1"]), op=op, maxseq=False, nbarriers=1))
    # a channel without modulation bandwidth can still have a (custom) phase-jump time
    for clock in ((4,) if quick else (1, 4)):
        for local in (False, True):
            for slots in own_slot_lists(2, local):
                for op in ops_global[:6]:
                    shapes.append(dict(own=dict(clock=clock, local=local, slots=slots, mod=False, pj="custom",
                                                targets_a=["q0"], targets_b=["q1"]), op=op, maxseq=False, nbarriers=1))
    if not quick:
        # deeper variants: symbolic channel max_duration (automatic delays can then be refused), two phase barriers,
        # channels without modulation
        for clock in (1, 4):
            for local in (False, True):
                for slots in own_slot_lists(2, local):
                    for op in (ops_local if local else ops_global):
                        shapes.append(dict(own=dict(clock=clock, local=local, slots=slots, mod=True, pj="custom", maxd=True,
                                                    targets_a=["q0"], targets_b=["q1"]), op=op, maxseq=True, nbarriers=2))
                        shapes.append(dict(own=dict(clock=clock, local=local, slots=slots, mod=False, pj="derived",
                                                    targets_a=["q0"], targets_b=["q1"]), op=op, maxseq=False, nbarriers=1))
    return shapes


def two_channel_shapes(tier):
    quick = tier == "quick"
    shapes = []
    other_lists = [["pulseA"], ["pulseA", "delay"], ["pulseA", "pulseB"], ["delay", "pulseA"],
                   ["pulseA", "delay", "target", "pulseA"], ["pulseA", "delay", "target"], ["pulseA", "delay", "delay"]]
    if not quick:
        other_lists += [["pulseA", "delay", "target", "pulseB", "delay"], ["pulseA", "pulseB", "delay"],
                        ["pulseA", "delay", "target", "delay"], ["delay", "delay", "pulseA"],
                        ["pulseA", "delay", "target", "pulseA", "delay", "target"]]
    own_lists = [[], ["pulseA"], ["delay"]] if quick else [[], ["pulseA"], ["delay"], ["pulseB", "delay"]]
    for clock in ([1, 4] if quick else [1, 2, 4, 8]):
        for oclock in ([1] if quick else [1, 4]):
            for ol in other_lists:
                olocal = "target" in ol
                for ota in (["q0"], ["q1"], ["q0", "q1"]):
                    for own_l in own_lists:
                        for proto in ("min-delay", "wait-for-all", "no-delay"):
                            for ph in ("A", "B"):
                                shapes.append(dict(
                                    own=dict(clock=clock, local=False, slots=own_l, mod=True, pj="derived",
                                             targets_a=["q0"], targets_b=["q1"]),
                                    other=dict(clock=oclock, local=olocal, slots=ol, mod=True, pj="derived",
                                               targets_a=ota, targets_b=(["q2"] if ota != ["q0", "q1"] else ["q2"])),
                                    op=["add_pulse", proto, ph], maxseq=False, nbarriers=1))
    if not quick:
        # three channels: the new pulse must respect both other channels
        for clock in (1, 4):
            for ol, tl in ((["pulseA"], ["pulseB", "delay"]), (["pulseA", "delay"], ["pulseA"]),
                           (["pulseA", "delay", "target", "pulseA"], ["delay", "pulseA"])):
                for ota, tta in ((["q0"], ["q1"]), (["q0"], ["q0"]), (["q1"], ["q0", "q1"])):
                    for proto in ("min-delay", "wait-for-all", "no-delay"):
                        for ph in ("A", "B"):
                            shapes.append(dict(
                                own=dict(clock=clock, local=False, slots=["pulseA"], mod=True, pj="derived", targets_a=["q0"], targets_b=["q1"]),
                                other=dict(clock=1, local=("target" in ol), slots=ol, mod=True, pj="derived", targets_a=ota, targets_b=["q2"]),
                                third=dict(clock=4, local=False, slots=tl, mod=True, pj="derived", targets_a=tta, targets_b=["q2"]),
                                op=["add_pulse", proto, ph], maxseq=False, nbarriers=1))
    return shapes


def filtered(h, prefixes):
    def g(inp):
        return [(l, o) for (l, o) in h(inp) if l.startswith(tuple(prefixes))]

    return g


COMMON_STUBS = [
    "Waveform.modulation_buffers (FFT) replaced by a nondeterministic pair under the contract 0 <= start,end <= rise_time, "
    "memoised on the waveform's defining data (so fall_time is any value in [tr, 2*tr]); the contract itself is checked "
    "on the real Channel.calc_modulation_buffer in C03 kernel K0",
    "Channel.rise_time / BaseEOM.rise_time (int(0.48/mod_bandwidth*1e3)) overridden by a symbolic integer >= 1 on a dynamic "
    "subclass of the real channel class; every other channel method is the shipped one",
    "StubPulse/SymWaveform: Pulse objects of symbolic duration whose samples are never read by the scheduler",
    "builtins max/min in pulser.sequence._schedule rebound to If-merging versions; numpy -> facade (np.clip -> If)",
    "pre-states are arbitrary states satisfying the representation invariant Inv (checks/l1.py:inv), which is itself "
    "re-proved after every operation (inductive step)",
    "operation preconditions taken from the Sequence layer: add_pulse gets a pulse whose duration is a clock multiple within "
    "[min_duration, max_duration] (proved for Sequence._validate_and_adjust_pulse in C01), phase barriers are non-negative ints, "
    "add_target is only called outside EOM mode",
]


def expected_unreachable(kernel, shape):
    """Structurally unreachable pre-states (Inv unsatisfiable): on a channel
    with modulation a target slot can never directly follow a pulse, because
    retargeting first waits for the (non-zero) fall time."""
    for name in ("own", "other", "third"):
        cfg = shape.get(name)
        if not cfg or not cfg.get("mod", True):
            continue
        sl = cfg.get("slots", [])
        for a, b in zip(sl, sl[1:]):
            if b == "target" and a.startswith(("pulse", "ddelay")):
                return True
    return False


def eom_shapes(tier):
    """Shapes for the EOM kernel: pre-state = [base slots][buffer][in-block slots]."""
    quick = tier == "quick"
    shapes = []
    for clock in ([1, 4] if quick else [1, 2, 4, 8]):
        for custom in (False, True):
            for det_off in (0.0, -1.5):
                idle = "delay" if det_off == 0 else "ddelayA"
                # (a) not in EOM: enable
                for base in ([], ["pulseA"], ["delay"], ["pulseA", "delay"], ["pulseB", "pulseA"]):
                    shapes.append(dict(
                        own=dict(clock=clock, local=False, slots=base, mod=True, pj="derived", det_off=det_off,
                                 eom=dict(custom_buffer=custom, blocks=[])),
                        op=["enable_eom", det_off], maxseq=True))
                # (b) in EOM
                inblock_lists = [[], ["pulseA"], [idle], ["pulseA", idle], ["pulseA", "pulseB"]]
                if not quick:
                    inblock_lists += [[idle, "pulseA"], ["pulseB", idle, idle]]
                for base in ([], ["pulseA"]):
                    pre = list(base) + ([idle] if base else [])
                    for inb in inblock_lists:
                        slots = pre + inb
                        blocks = [(len(pre), None)]
                        ops = [["add_pulse", p, ph] for p in ("min-delay", "no-delay") for ph in ("A", "B")]
                        ops += [["add_delay"], ["disable_eom"], ["modify_eom", det_off], ["modify_eom", -0.5], ["wait_for_fall"]]
                        for op in ops:
                            shapes.append(dict(
                                own=dict(clock=clock, local=False, slots=slots, mod=True, pj="derived", det_off=det_off,
                                         eom=dict(custom_buffer=custom, blocks=blocks)),
                                op=op, maxseq=True, nbarriers=1))
                # (b') the same with a CUSTOM phase-jump time (possibly shorter than the fall time: in EOM mode the jump still
                # takes at least twice the rise time)
                if not custom:
                    for inb in (["pulseA"], ["pulseA", idle], ["pulseA", idle, idle]):
                        for ph in ("A", "B"):
                            shapes.append(dict(
                                own=dict(clock=clock, local=False, slots=list(inb), mod=True, pj="custom", det_off=det_off,
                                         eom=dict(custom_buffer=False, blocks=[(0, None)])),
                                op=["add_pulse", "min-delay", ph], maxseq=False, nbarriers=1))
                # (c) closed block followed by ordinary operation
                for tail in ([], ["delay"], ["delay", "pulseA"]):
                    slots = ["pulseA", idle, "pulseB"] + tail
                    blocks = [(2, 3)]
                    for op in ([["add_pulse", "min-delay", "A"], ["add_delay"], ["enable_eom", det_off], ["wait_for_fall"]]):
                        shapes.append(dict(
                            own=dict(clock=clock, local=False, slots=slots, mod=True, pj="derived", det_off=det_off,
                                     eom=dict(custom_buffer=custom, blocks=blocks)),
                            op=op, maxseq=True, nbarriers=1))
    return shapes
