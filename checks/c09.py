"""C09 - a sequence is exactly the effect of its successful calls.

Kernels
  atomic    a concrete prefix, then 1-2 calls with symbolic arguments; every
            call that raises must leave the snapshot of the sequence unchanged
  readonly  read-only operations leave the snapshot unchanged
  copy      build()-copy / switch_register(same) give the identical timeline
  l1        scheduler-level "raise => unchanged" from the L1 inductive step
"""
from __future__ import annotations

import numpy as np

from checks import l1, l2
from symx import core, facade, stubs
from symx.core import AND, IFF, IMPLIES, ITE, NOT, OR, is_sym

PROPERTY = "C09"
TWO_PI = 2 * np.pi
STUBS = l1.COMMON_STUBS + [
    "snapshot = slot lists (kind/ti/tf/targets, pulse defining values), EOM blocks, phase references (times, phases, last_used), "
    "call logs, mode flags, SLM state, measurement, variables",
    "ConstArr: constant arrays of symbolic length so that real Pulse.ConstantPulse(SInt, ...) objects run through Sequence.add",
]
FLOAT_MODE = "amplitudes exact reals, detunings on the 1e-7 decimal grid, durations/times integers"
BOUNDS = {"quick": dict(calls_after_prefix=2, prefixes=3, device="VirtualDevice(max_sequence_duration=4000, clock 4, min_duration 8, modulation 20 MHz)"),
          "thorough": dict(calls_after_prefix=2, prefixes=5, device="same + AnalogDevice-like EOM")}
OUTSIDE = ["draw (matplotlib)", "numerical fall times (stub contract)"]


def setup():
    l1.setup()
    l2.setup()
    from symx import jsonfacade
    import pulser.json.abstract_repr.deserializer as des
    import pulser.json.abstract_repr.serializer as ser

    jsonfacade.install()
    facade.install(extra_np=(des, ser))


def setup_concrete():
    l2.setup_concrete()


expected_unreachable = l1.expected_unreachable

S = lambda n, k="real", **kw: dict(s=n, k=k, **kw)  # noqa: E731


def op_library(tag):
    """Call descriptors with symbolic arguments; `tag` makes names unique."""
    t = tag
    return {
        "add_g": ["add", "g", ["cp", S("d" + t, "int", lo=1), S("a" + t, lo=0), S("det" + t, "fix"), 0.0], "min-delay"],
        "add_l": ["add", "l", ["cp", S("d" + t, "int", lo=1), S("a" + t, lo=0), 0.0, 1.0, 0.5], "min-delay"],
        "add_nodelay": ["add", "g", ["cp", S("d" + t, "int", lo=1), 1.0, 0.0, 1.0], "no-delay"],
        "add_badproto": ["add", "g", ["cp", 16, 1.0, 0.0, 0.0], "asap"],
        "add_undeclared": ["add", "zz", ["cp", 16, 1.0, 0.0, 0.0]],
        "delay_g": ["delay", "g", S("dl" + t, "int")],
        "delay_rest": ["delay", "l", S("dl" + t, "int", lo=0), True],
        "target": ["target", "l", "q1"],
        "target_many": ["target", "l", ["q0", "q1", "q2"]],
        "target_unknown": ["target", "l", "zz"],
        "target_global": ["target", "g", "q1"],
        "align": ["align", ["g", "l"]],
        "align_norest": ["align", ["l", "g"], False],
        "align_one": ["align", ["g"]],
        "shift": ["phase_shift", 0.5, ["q0"], "ground-rydberg"],
        "shift_badbasis": ["phase_shift", 0.5, ["q0"], "XY"],
        "shift_unknown": ["phase_shift", 0.5, ["zz"], "ground-rydberg"],
        "eom_on": ["enable_eom", "g", 1.0, 0.0, 0.0],
        "eom_on_over": ["enable_eom", "g", 100.0, 0.0, 0.0],
        "eom_pulse": ["add_eom", "g", S("d" + t, "int", lo=1), 0.0],
        "eom_off": ["disable_eom", "g"],
        "declare_again": ["declare", "g", "ram_glob"],
        "declare_bad_target": ["declare", "extra", "ram_loc", "zz"],
        "declare_too_many": ["declare", "extra", "ram_loc", ["q0", "q1", "q2", "q0x"]],
        "declare_used": ["declare", "g2", "ryd_glob"],
        "slm_bad_dmm": ["config_slm", ["q0", "q1"], "dmm_7"],
        "dmap_bad": ["config_dmap", {"q0": 1.0}, "dmm_7"],
        "dmap_taken": ["config_dmap", {"q1": 1.0}, "dmm_0"],
        "mag_zero": ["set_mag", [0.0, 0.0, 0.0]],
        "mag": ["set_mag", [1.0, 0.0, 2.0]],
        "measure": ["measure", "ground-rydberg"],
        "measure_bad": ["measure", "XY"],
    }


PREFIXES = {
    "pe": [],
    "pslm": [["config_slm", ["q0"], "dmm_0"]],  # (no channel yet, so no mode of operation yet; dmm_0 is reserved for the mask)
    "p0": [["declare", "g", "ryd_glob"], ["declare", "l", "ryd_loc", "q0"]],
    "p1": [["declare", "g", "ryd_glob"], ["declare", "l", "ryd_loc", "q0"],
           ["add", "g", ["cp", S("pd0", "mult", clock=4, lo=8), 1.0, 0.0, 0.0]],
           ["add", "l", ["cp", S("pd1", "mult", clock=4, lo=8), 1.0, 0.0, 0.0]]],
    "p2": [["declare", "g", "ryd_glob"], ["declare", "l", "ryd_loc", "q0"],
           ["add", "l", ["cp", S("pd1", "mult", clock=4, lo=8), 1.0, 0.0, 0.0]],
           ["enable_eom", "g", 1.0, 0.0, 0.0], ["add_eom", "g", S("pd2", "mult", clock=4, lo=8), 0.0]],
    "p3": [["declare", "l", "ryd_loc", "q0"], ["declare", "g", "ryd_glob"],
           ["add", "g", ["cp", S("pd0", "mult", clock=4, lo=8), 1.0, 0.0, 1.0]], ["delay", "l", 40],
           ["target", "l", "q1"]],
    "p4": [["declare", "g", "ryd_glob"], ["declare", "l", "ryd_loc", "q0"],
           ["add", "g", ["cp", S("pd0", "mult", clock=4, lo=8), 1.0, 0.0, 0.0]], ["measure", "ground-rydberg"]],
}


def only_fall_delay_left(before, after, allow_block_close):
    """Region of finding F9: the only trace the refused call left is delay
    slot(s) appended to channel timelines (the fall-time wait / alignment
    delay) - and, for disable_eom_mode, the closing time of the open block."""
    b2 = dict(before)
    a2 = dict(after)
    bs, as_ = b2.pop("schedule"), a2.pop("schedule")
    terms = [l2.snap_equal(b2, a2)]
    if set(bs) != set(as_):
        return False
    for name in bs:
        sb, sa = bs[name], as_[name]
        nb = len(sb["slots"])
        if len(sa["slots"]) < nb:
            return False
        terms.append(l2.snap_equal(sb["slots"], sa["slots"][:nb]))
        if allow_block_close and sb["blocks"] and sb["blocks"][-1][4] is None and len(sa["blocks"]) == len(sb["blocks"]):
            terms.append(l2.snap_equal(sb["blocks"][:-1], sa["blocks"][:-1]))
            terms.append(l2.snap_equal(sb["blocks"][-1][:4], sa["blocks"][-1][:4]))
        else:
            terms.append(l2.snap_equal(sb["blocks"], sa["blocks"]))
        for extra in sa["slots"][nb:]:
            typ = extra[0]
            detuned_delay = (typ[0] == "pulse" and typ[1][0] == "Constant" and typ[2][0] == "Constant"
                             and not is_sym(typ[1][1][1]) and float(typ[1][1][1]) == 0.0)
            if typ != ("delay",) and not detuned_delay:
                return False
    return AND(*terms)


def only_new_channel_left(before, after, name):
    """Region of finding F20: the only trace of the refused declare_channel is the (empty) channel itself
    (and the phase-reference table of its basis when it is the first channel of that basis)."""
    bs, as_ = before["schedule"], after["schedule"]
    extras = set(as_) - set(bs)
    # (with an SLM mask configured before any channel, the first Ising channel also declares the mask's DMM: it stays as well)
    dmms = {x for x in extras if x.startswith("dmm_")}
    if name in bs or extras - dmms != {name} or set(bs) - set(as_):
        return False
    if as_[name]["slots"] or as_[name]["blocks"]:
        return False
    if any(len(as_[x]["slots"]) > 1 or as_[x]["blocks"] for x in dmms):
        return False
    terms = [l2.snap_equal({k: v for k, v in as_.items() if k not in extras}, bs),
             l2.snap_equal(before["calls"], after["calls"]), l2.snap_equal(before["to_build_calls"], after["to_build_calls"]),
             # (the first channel of a sequence also switches it to Ising mode)
             l2.snap_equal({k: v for k, v in before["flags"].items() if k != "in_ising"}, {k: v for k, v in after["flags"].items() if k != "in_ising"})]
    for b, d in before["basis_ref"].items():
        terms.append(l2.snap_equal(d, after["basis_ref"].get(b)))
    return AND(*terms)


def h_atomic(shape):
    inner = _h_atomic(shape)

    def h(inp):
        # kwmode: the same calls with every argument passed by keyword
        l2.KW_MODE[0] = bool(shape.get("kwmode"))
        try:
            return inner(inp)
        finally:
            l2.KW_MODE[0] = False

    return h


def _h_atomic(shape):
    def h(inp):
        stubs.bind(inp)
        seq = l2.new_seq(shape["device"])
        l2.run_prefix(inp, seq, PREFIXES[shape["prefix"]])
        obs = []
        for i, name in enumerate(shape["ops"]):
            op = op_library(str(i))[name]
            before = l2.snapshot(seq)
            # region of finding F46: an SLM mask is configured and its DMM still waits for the first pulse of a Global channel
            dmm_w = getattr(seq, "_slm_mask_dmm", None)
            waiting = bool(dmm_w and dmm_w in seq._schedule and getattr(seq._schedule[dmm_w], "_waiting_for_first_pulse", False))
            try:
                l2.run_op(inp, seq, op)
                raised = None
            except l2.REFUSALS as e:
                raised = e
            if raised is not None:
                after = l2.snapshot(seq)
                label = "atomic:%s#%d" % (name, i)
                obs.append((label, l2.snap_equal(before, after)))
                inp.publish("only_delays_left_behind@" + label, only_fall_delay_left(before, after, False))
                inp.publish("only_delays_and_eom_close_left_behind@" + label, only_fall_delay_left(before, after, True))
                inp.publish("slm_mask_waiting_for_first_pulse@" + label, waiting)
                if op[0] == "declare":
                    inp.publish("only_the_new_channel_left_behind@" + label, only_new_channel_left(before, after, op[1]))
        # the whole history (successes + failures) leaves a consistent object:
        # a build()-free copy through the call log reproduces the timeline
        return obs

    return h


def h_unknown_var(shape):
    """A call using a variable of another sequence raises and must not turn
    the sequence parametrized (F6)."""

    def h(inp):
        stubs.bind(inp)
        from pulser.pulse import Pulse

        seq = l2.new_seq(shape["device"])
        other = l2.new_seq(shape["device"])
        l2.run_prefix(inp, seq, PREFIXES[shape["prefix"]])
        v = other.declare_variable("x", dtype=float)
        if shape["own_var"]:
            seq.declare_variable("y", dtype=float)
        before = l2.snapshot(seq)
        obs = []
        try:
            if shape["call"] == "add_own_badchannel":
                y = seq.declare_variable("z", dtype=float)
                before = l2.snapshot(seq)
                seq.add(Pulse.ConstantPulse(16, y, 0.0, 0.0), "zz")
            elif shape["call"] == "delay_own_badchannel":
                y = seq.declare_variable("z", dtype=int)
                before = l2.snapshot(seq)
                seq.delay(y, "zz")
            elif shape["call"] == "add_two_args":
                y = seq.declare_variable("z", dtype=float)
                before = l2.snapshot(seq)
                seq.add(Pulse.ConstantPulse(16, y, v, 0.0), "g")
            elif shape["call"] in ("own_add_in_eom", "own_add_eom_outside", "own_enable_eom_twice", "own_add_after_measure",
                                   "own_target_global", "own_delay_badchannel_kw"):
                # the sequence's OWN variable in a call that is refused for a reason unrelated to its arguments
                # (wrong mode of the channel, measured sequence, wrong kind of channel)
                yf = seq.declare_variable("zf", dtype=float)
                yi = seq.declare_variable("zi", dtype=int)
                before = l2.snapshot(seq)
                c = shape["call"]
                if c == "own_add_in_eom":
                    seq.add(Pulse.ConstantPulse(16, yf, 0.0, 0.0), "g")
                elif c == "own_add_eom_outside":
                    seq.add_eom_pulse("g", yi, 0.0)
                elif c == "own_enable_eom_twice":
                    seq.enable_eom_mode("g", yf, 0.0)
                elif c == "own_add_after_measure":
                    seq.add(Pulse.ConstantPulse(yi, 1.0, 0.0, 0.0), "g")
                elif c == "own_target_global":
                    seq.target_index(yi, "g")
                else:
                    seq.delay(duration=yi, channel="zz")
            elif shape["call"] == "add":
                seq.add(Pulse.ConstantPulse(16, v, 0.0, 0.0), "g")
            elif shape["call"] == "delay":
                seq.delay(v, "g")
            elif shape["call"] == "phase_shift":
                seq.phase_shift(v, "q0", basis="ground-rydberg")
            else:
                seq.enable_eom_mode("g", v, 0.0)
            raised = False
        except l2.REFUSALS:
            raised = True
        obs.append(("foreign_var:refused", raised))
        obs.append(("foreign_var:unchanged", l2.snap_equal(before, l2.snapshot(seq))))
        return obs

    return h


def h_readonly(shape):
    def h(inp):
        stubs.bind(inp)
        import pulser
        from pulser.pulse import Pulse

        seq = l2.new_seq(shape["device"])
        prog = [["declare", "g", "ryd_glob"], ["declare", "l", "ryd_loc", "q0"],
                ["add", "g", ["cp", 16, S("a0", lo=0, hi=10), S("d0", "fix", lo=-20, hi=20), 0.0, 0.25]],
                ["add", "l", ["pulse", ["ramp", 12, S("a1", lo=0, hi=10), S("a2", lo=0, hi=10)], ["const", 12, 0.0], 1.0]],
                ["delay", "g", 16, True], ["align", ["g", "l"], True], ["delay", "l", 16, False], ["align", ["l", "g"], False],
                ["phase_shift", 0.5, ["q0", "q1", "q2"], "ground-rydberg"]]
        if shape["what"] == "sample_mod":
            # modulated sampling runs the real FFT: concrete numbers and a concrete timeline (constant fall times)
            stubs.bind(inp, fixed=True)
            prog = [["declare", "g", "ryd_glob"], ["declare", "l", "ryd_loc", "q0"],
                    ["add", "g", ["cp", 16, 2.0, 1.0, 0.0, 0.25]], ["add", "l", ["pulse", ["ramp", 12, 1.0, 3.0], ["const", 12, 0.0], 1.0]],
                    ["delay", "g", 16, True], ["align", ["g", "l"], True], ["phase_shift", 0.5, ["q0", "q1", "q2"], "ground-rydberg"]]
        if shape.get("eom"):
            prog += [["enable_eom", "g", 1.0, 0.0, 0.0], ["add_eom", "g", 16, 0.0]]
        l2.run_prefix(inp, seq, prog)
        before = l2.snapshot(seq)
        what = shape["what"]
        if what == "str":
            str(seq)
        elif what == "get_duration":
            seq.get_duration()
            seq.get_duration("g", include_fall_time=True)
        elif what == "estimate":
            if not shape.get("eom"):
                seq.estimate_added_delay(Pulse.ConstantPulse(16, 1.0, 0.0, 2.0), "g")
            seq.estimate_added_delay(Pulse.ConstantPulse(16, 1.0, 0.0, 2.0), "l", "wait-for-all")
        elif what == "phase_ref":
            seq.current_phase_ref("q1", "ground-rydberg")
        elif what == "queries":
            seq.is_in_eom_mode("g")
            seq.available_channels
            seq.declared_channels
            seq.is_parametrized()
            seq.is_measured()
            seq.get_addressed_bases()
        elif what == "queries_param_slm":
            # a parametrized sequence that configured an SLM mask / a detuning map with KEYWORD arguments: the queries that
            # are allowed on parametrized sequences still answer
            v = seq.declare_variable("v", dtype=int)
            seq.delay(v, "g")
            seq.config_slm_mask(qubits=["q0"])
            before = l2.snapshot(seq)
            try:
                seq.declared_channels
                seq.is_parametrized()
                seq.is_in_eom_mode("g")
                seq.available_channels
            except Exception:  # noqa: BLE001
                return [("readonly:queries_answer", False)]
        elif what == "sample":
            pulser.sampler.sample(seq)
        elif what == "nested_dict_slm":
            # the nested dictionary the emulators consume, of a sequence with an SLM mask (XY: the mask is applied while the
            # dictionary is built; Ising: through the DMM): the sequence - its slots' target sets, its qubits - is not touched
            stubs.bind(inp, fixed=True)
            obs = []
            for mode in ("xy", "ising"):
                s2 = l2.new_seq("mock")
                s2.declare_channel("ch", "mw_global" if mode == "xy" else "rydberg_global")
                s2.config_slm_mask(["q0"])
                s2.add(Pulse.ConstantPulse(100, 1.0, 0.0, 0.0), "ch")
                s2.add(Pulse.ConstantPulse(200, 0.5, 0.0, 0.0), "ch")
                b2, q2 = l2.snapshot(s2), sorted(s2._qids)
                for all_local in (False, True):
                    pulser.sampler.sample(s2).to_nested_dict(all_local=all_local)
                obs.append(("readonly:nested_dict_slm_%s" % mode, AND(l2.snap_equal(b2, l2.snapshot(s2)), sorted(s2._qids) == q2)))
            return obs
        elif what == "sample_mod":
            pulser.sampler.sample(seq, modulation=True)
            pulser.sampler.sample(seq, modulation=True, extended_duration=seq.get_duration() + 20)
        elif what == "build_copy":
            seq.build()
        elif what == "to_abstract_repr":
            from symx import jsonfacade

            jsonfacade.reset()
            seq.to_abstract_repr()
        elif what == "serialize":
            from symx import jsonfacade

            jsonfacade.reset()
            seq._serialize()
        return [("readonly:%s" % what, l2.snap_equal(before, l2.snapshot(seq)))]

    return h


def h_copy(shape):
    def h(inp):
        stubs.bind(inp)
        seq = l2.new_seq(shape["device"])
        prog = [["declare", "g", "ryd_glob"], ["declare", "l", "ryd_loc", "q0"],
                ["add", "g", ["cp", S("d0", "mult", clock=4, lo=8, hi=400), S("a0", lo=0, hi=10), S("det0", "fix", lo=-20, hi=20), 0.0, 0.25]],
                ["add", "l", ["cp", S("d1", "mult", clock=4, lo=8, hi=400), S("a1", lo=0, hi=10), 0.0, 1.0]],
                ["target", "l", "q1"], ["delay", "l", S("dl", "mult", clock=4, lo=8, hi=400)],
                ["add", "l", ["cp", 16, 1.0, 0.0, 2.0], "wait-for-all"], ["align", ["g", "l"]],
                ["phase_shift", 0.5, ["q0", "q1", "q2"], "ground-rydberg"], ["add", "g", ["cp", 16, 1.0, 0.0, 1.0], "no-delay"]]
        l2.run_prefix(inp, seq, prog)
        if shape["via"] == "build":
            cp = seq.build()
        else:
            cp = seq.switch_register(l2.mk_register("reg3"))
        obs = [("copy:%s_identical_timeline" % shape["via"], l2.snap_equal(l2.timeline(seq), l2.timeline(cp)))]
        # the two are independent objects: building further on either leaves the other exactly as it was
        snap_o, snap_c = l2.snapshot(seq), l2.snapshot(cp)
        more = [["add", "g", ["cp", 20, 1.0, 0.0, 0.5]], ["target", "l", "q2"], ["phase_shift", 0.25, ["q1"], "ground-rydberg"], ["measure", "ground-rydberg"]]
        l2.run_prefix(inp, cp, more)
        cp.declare_variable("only_on_the_copy", dtype=float)
        obs.append(("copy:%s_original_unaffected_by_calls_on_copy" % shape["via"], l2.snap_equal(snap_o, l2.snapshot(seq))))
        snap_c2 = l2.snapshot(cp)
        l2.run_prefix(inp, seq, [["delay", "g", 40], ["target", "l", "q0"], ["phase_shift", 0.75, ["q2"], "ground-rydberg"]])
        seq.declare_variable("only_on_the_original", dtype=int)
        obs.append(("copy:%s_copy_unaffected_by_calls_on_original" % shape["via"], l2.snap_equal(snap_c2, l2.snapshot(cp))))
        return obs

    return h


def kernels(tier):
    quick = tier == "quick"
    ks = []
    names = list(op_library("0"))
    prefixes = ["p0", "p1", "p2"] if quick else list(PREFIXES)
    for pre in prefixes:
        for a in names:
            ks.append(("atomic", dict(device="virt_maxseq", prefix=pre, ops=[a])))
        firsts = ["add_g", "delay_rest", "eom_on", "measure"] if quick else names
        for a in firsts:
            for b in names:
                ks.append(("atomic", dict(device="virt_maxseq", prefix=pre, ops=[a, b])))
    for pre in ("p1", "p2"):
        for a in names:
            ks.append(("atomic", dict(device="virt_maxseq", prefix=pre, ops=[a], kwmode=True)))
    for pre, ops in (("pslm", ["dmap_taken"]), ("pe", ["dmap_bad"]), ("pslm", ["dmap_bad"]), ("pe", ["slm_bad_dmm"])):
        for dev in ("mock", "digital"):  # (reusable channels or not: on the second the mask's DMM is no longer available)
            ks.append(("atomic", dict(device=dev, prefix=pre, ops=ops)))
    for ops in (["mag_zero"], ["mag_zero", "mag_zero"], ["mag", "mag_zero"], ["declare_used", "mag_zero"], ["mag_zero", "declare_used"]):
        ks.append(("atomic", dict(device="mock", prefix="pe", ops=ops)))
    for pre in ("p0", "p1"):
        for call in ("add", "delay", "phase_shift", "enable_eom", "add_own_badchannel", "delay_own_badchannel", "add_two_args"):
            for own in (False, True):
                ks.append(("unknown_var", dict(device="virt_maxseq", prefix=pre, call=call, own_var=own)))
    for pre, call in (("p2", "own_add_in_eom"), ("p2", "own_enable_eom_twice"), ("p0", "own_add_eom_outside"), ("p1", "own_add_eom_outside"),
                      ("p1", "own_target_global"), ("p1", "own_delay_badchannel_kw")):
        ks.append(("unknown_var", dict(device="virt_maxseq", prefix=pre, call=call, own_var=False)))
    for what in ("str", "get_duration", "estimate", "phase_ref", "queries", "queries_param_slm", "sample", "nested_dict_slm", "sample_mod", "build_copy", "to_abstract_repr", "serialize"):
        for eom in (False, True):
            if what in ("sample", "nested_dict_slm") and eom:
                continue  # EOM needs modulation; sampling needs a concrete timeline (no stubbed fall times)
            ks.append(("readonly", dict(device=("virt_nomod" if what == "sample" else "virt_maxseq"), what=what, eom=eom)))
    for via in ("build", "switch_register"):
        ks.append(("copy", dict(device="virt_maxseq", via=via)))
    ks += [("l1", s) for s in l1.step_shapes(tier)]
    ks += [("l1", s) for s in l1.eom_shapes(tier)]
    return ks


def harness(kernel, shape):
    if kernel == "atomic":
        return h_atomic(shape)
    if kernel == "unknown_var":
        return h_unknown_var(shape)
    if kernel == "readonly":
        return h_readonly(shape)
    if kernel == "copy":
        return h_copy(shape)
    if kernel == "l1":
        return l1.filtered(l1.step_harness(shape), ("c09:",))
    raise ValueError(kernel)
