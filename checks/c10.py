"""C10 via the L1 inductive scheduler step (see checks/l1.py, DESIGN §6)."""
from checks import l1

PROPERTY = "C10"
PREFIXES = ("c10:",)
setup = l1.setup
setup_concrete = l1.setup_concrete
expected_unreachable = l1.expected_unreachable
STUBS = l1.COMMON_STUBS
FLOAT_MODE = "integers only (LIA); phases are concrete"


def kernels(tier):
    ks = [("step", s) for s in l1.step_shapes(tier)]
    ks += [("two", s) for s in l1.two_channel_shapes(tier)]
    ks += [("eom", s) for s in l1.eom_shapes(tier)]
    return ks


def harness(kernel, shape):
    return l1.filtered(l1.step_harness(shape), PREFIXES)
