"""C10 via the L1 inductive scheduler step (see checks/l1.py, DESIGN §6)."""
from checks import l1

PROPERTY = "C10"
PREFIXES = ("c10:",)
setup = l1.setup
setup_concrete = l1.setup_concrete
expected_unreachable = l1.expected_unreachable
STUBS = l1.COMMON_STUBS
FLOAT_MODE = "integers only (LIA); phases are concrete"


def kernels(tier):
    ks = [("step", s) for s in l1.step_shapes(tier)]
    ks += [("two", s) for s in l1.two_channel_shapes(tier)]
    ks += [("eom", s) for s in l1.eom_shapes(tier)]
    return ks


def harness(kernel, shape):
    if kernel == "eom_drift":
        from checks import c15

        return l1.filtered(c15.h_drift(shape), PREFIXES)
    return l1.filtered(l1.step_harness(shape), PREFIXES)


_k10 = kernels


def kernels(tier):  # noqa: F811
    from checks import c15

    return _k10(tier) + [("eom_drift", sh) for (k, sh) in c15.kernels(tier) if k == "drift"]


def setup():  # noqa: F811
    l1.setup()
    from checks import l2

    l2.setup()


def setup_concrete():  # noqa: F811
    l1.setup_concrete()
    from checks import l2

    l2.setup_concrete()


# ---- L2: real waveforms as the "previous pulse" (what counts as a pulse is decided on real Pulse objects) ---------

from checks import l2  # noqa: E402
from symx import core, stubs  # noqa: E402

_k10b, _h10b = kernels, harness


def h_real_prev(shape):
    def h(inp):
        stubs.bind(inp)
        from pulser.pulse import Pulse
        from pulser.waveforms import BlackmanWaveform, ConstantWaveform, CustomWaveform, RampWaveform

        seq = l2.new_seq("virt")
        seq.declare_channel("g", "ryd_glob")
        ch = seq.declared_channels["g"]
        d0, d2 = inp.mult("d0", 4, 8, 400), inp.mult("d2", 4, 8, 400)
        d1 = shape["d1"]
        kind = shape["prev"]
        amp = {"ramp00": lambda: RampWaveform(d1, 0.0, 0.0), "custom0": lambda: CustomWaveform([0.0] * d1),
               "blackman0": lambda: BlackmanWaveform(d1, 0.0), "const0": lambda: ConstantWaveform(d1, 0.0),
               "ramp": lambda: RampWaveform(d1, 0.0, 1.0), "const": lambda: ConstantWaveform(d1, 0.5)}[kind]()
        det = ConstantWaveform(d1, inp.real("det1", -10, 10)) if shape["det"] == "const" else RampWaveform(d1, -1.0, 1.0)
        try:
            seq.add(Pulse.ConstantPulse(d0, 1.0, 0.0, 0.0), "g")
            seq.add(Pulse(amp, det, 1.0), "g", shape["proto1"])
            seq.add(Pulse.ConstantPulse(d2, 1.0, 0.0, 2.0), "g", "min-delay")
        except l2.REFUSALS:
            raise core.Infeasible()
        cs = seq._schedule["g"]
        pulses = [sl for sl in cs.slots if l1.is_pulse(sl)]
        p0, p1, p2 = pulses[0], pulses[1], pulses[-1]
        # only a CONSTANT zero amplitude with a constant detuning is a delay; every other waveform is a pulse
        prev = p0 if (kind == "const0" and shape["det"] == "const") else p1
        fall = prev.type.fall_time(ch, in_eom_mode=False)
        return [("c10:phase_jump_gap_real_pulses", p2.ti - prev.tf >= l1.ref_phase_jump_time(ch) + fall)]

    return h


def kernels(tier):  # noqa: F811
    ks = _k10b(tier)
    for prev in ("ramp00", "custom0", "blackman0", "const0", "ramp", "const"):
        for det in ("const", "ramp"):
            for proto1 in ("min-delay", "no-delay"):
                ks.append(("real_prev", dict(prev=prev, det=det, proto1=proto1, d1=12)))
    return ks


def harness(kernel, shape):  # noqa: F811
    if kernel == "real_prev":
        return h_real_prev(shape)
    return _h10b(kernel, shape)
