"""C10 via the L1 inductive scheduler step (see checks/l1.py, DESIGN §6)."""
from checks import l1

PROPERTY = "C10"
PREFIXES = ("c10:",)
setup = l1.setup
setup_concrete = l1.setup_concrete
expected_unreachable = l1.expected_unreachable
STUBS = l1.COMMON_STUBS
FLOAT_MODE = "integers only (LIA); phases are concrete"


def kernels(tier):
    ks = [("step", s) for s in l1.step_shapes(tier)]
    ks += [("two", s) for s in l1.two_channel_shapes(tier)]
    ks += [("eom", s) for s in l1.eom_shapes(tier)]
    return ks


def harness(kernel, shape):
    if kernel == "eom_drift":
        from checks import c15

        return l1.filtered(c15.h_drift(shape), PREFIXES)
    return l1.filtered(l1.step_harness(shape), PREFIXES)


_k10 = kernels


def kernels(tier):  # noqa: F811
    from checks import c15

    return _k10(tier) + [("eom_drift", sh) for (k, sh) in c15.kernels(tier) if k == "drift"]


def setup():  # noqa: F811
    l1.setup()
    from checks import l2

    l2.setup()


def setup_concrete():  # noqa: F811
    l1.setup_concrete()
    from checks import l2

    l2.setup_concrete()
