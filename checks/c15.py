"""C15 - EOM mode: square pulses, physical off-detuning, buffers, drift correction.

K1 eomcfg  RydbergEOM.calculate_detuning_off / detuning_off_options on real
           RydbergEOM objects (concrete configuration, symbolic set-points)
K2 l1      EOM blocks/buffers on the L1 scheduler step (labels c15:)
K3 seq     Sequence level: pulses inside a block are square with the block's
           set-point, idle detuning is the off-detuning, stored call carries
           the chosen off-detuning
K4 drift   phase-drift bookkeeping with correct_phase_drift=True
Out: the emulator equivalence itself.
"""
from __future__ import annotations

import itertools

import numpy as np
import z3

from checks import l1, l2
from symx import core, facade, stubs
from symx.core import AND, IFF, IMPLIES, ITE, NOT, OR, SBool, is_sym, smax

PROPERTY = "C15"
TOL = 1e-9  # concrete sub-expressions are rounded by binary64 in the code and exact in the reference
TWO_PI = 2 * np.pi
STUBS = l1.COMMON_STUBS + [
    "np.sqrt on proxies introduces a fresh y >= 0 with y*y == x (exact real square root)",
    "EOM configuration numbers (beam amplitudes, intermediate detuning, shift coefficients) are concrete; set-points are symbolic reals",
    "the EOM rise time is assumed not longer than the channel's (documented: the EOM has the higher bandwidth)",
]
FLOAT_MODE = "R-mode exact reals with exact square roots (QF_NRA); K4 uses bounded integer delays"
BOUNDS = {"quick": dict(eom_configs=6, setpoints="amp_on in [0, 40], detunings in [-40, 40]", drift_delays="4k ns, k in [2, 12]"),
          "thorough": dict(eom_configs=12, setpoints="same", drift_delays="4k ns, k in [2, 40]")}
OUTSIDE = ["emulator populations under drift correction (ODE)", "symbolic EOM configuration numbers", "numerical fall times"]
TIMEOUT_MS = {"quick": 30000, "thorough": 90000}


def setup():
    l1.setup()
    l2.setup()


def setup_concrete():
    l2.setup_concrete()


expected_unreachable = l1.expected_unreachable


def mk_eom(cfg):
    from pulser.channels.eom import RydbergBeam, RydbergEOM

    B = {"B": RydbergBeam.BLUE, "R": RydbergBeam.RED}
    return RydbergEOM(
        limiting_beam=B[cfg["lim"]], max_limiting_amp=cfg.get("max_amp", 30 * TWO_PI),
        intermediate_detuning=cfg.get("delta", 700 * TWO_PI), controlled_beams=tuple(B[x] for x in cfg["ctrl"]),
        mod_bandwidth=40.0, multiple_beam_control=cfg.get("multi", True),
        blue_shift_coeff=cfg.get("cb", 1.0), red_shift_coeff=cfg.get("cr", 1.0))


def ref_options(cfg, amp, det_on):
    """Reference off-detuning options, written from the class documentation:
    effective Rabi frequency  W = W_r W_b / (2 D); light shift of the beams
    that stay on  LS = (cb W_b^2 - cr W_r^2) / (4 D); option = detuning_on -
    LS(both) + LS(beams left on).  Everything in squared amplitudes."""
    D = cfg.get("delta", 700 * TWO_PI)
    cb, cr = cfg.get("cb", 1.0), cfg.get("cr", 1.0)
    amax = cfg.get("max_amp", 30 * TWO_PI)
    lim = cfg["lim"]
    sf = float(np.sqrt(cr / cb if lim == "R" else cb / cr))
    limit = sf * amax**2 / (2 * D)
    below = amp <= limit
    # squared beam amplitudes
    lim_sq_lo = 2 * amp * D / sf
    oth_sq_lo = 2 * amp * D * sf
    lim_sq_hi = amax**2
    oth_hi = 2 * D * amp / amax
    oth_sq_hi = oth_hi * oth_hi
    lim_sq = ITE(below, lim_sq_lo, lim_sq_hi)
    oth_sq = ITE(below, oth_sq_lo, oth_sq_hi)
    sq = {lim: lim_sq, ("B" if lim == "R" else "R"): oth_sq}
    bias = {"B": cb, "R": -cr}

    def ls(beams):
        t = 0.0
        for b in beams:
            t = t + bias[b] * sq[b]
        return t / (4 * D)

    combos = [(b,) for b in cfg["ctrl"]]
    if len(cfg["ctrl"]) > 1 and cfg.get("multi", True):
        combos.append(("B", "R"))
    opts = []
    for off in combos:
        on = [b for b in ("B", "R") if b not in off]
        opts.append(det_on - ls(("B", "R")) + ls(on))
    return opts, combos


def h_eomcfg(shape):
    from pulser.channels.eom import RydbergBeam

    cfg = shape["cfg"]

    def h(inp):
        eom = mk_eom(cfg)
        amp = inp.real("amp_on", 0, 40)
        det = inp.real("detuning_on", -40, 40)
        opt = inp.real("optimal_detuning_off", -40, 40)
        res, beams = eom.calculate_detuning_off(amp, det, opt, return_switching_beams=True)
        res = facade._unwrap0(res)
        options = [facade._unwrap0(x) for x in eom.detuning_off_options(amp, det)]
        ref, combos = ref_options(cfg, amp, det)
        obs = [("k1:n_options", len(options) == len(ref))]
        for o, r in zip(options, ref):
            obs.append(("k1:option_is_documented_lightshift", abs(o - r) <= TOL))
        obs.append(("k1:result_is_an_option", OR(*[abs(res - r) <= TOL for r in ref])))
        for r in ref:
            obs.append(("k1:result_is_closest", abs(res - opt) <= abs(r - opt) + 2 * TOL))
        names = {RydbergBeam.BLUE: "B", RydbergBeam.RED: "R"}
        got = tuple(sorted(names[b] for b in beams))
        for r, c in zip(ref, combos):
            if tuple(sorted(c)) == got:
                obs.append(("k1:switching_beams_match_result", abs(res - r) <= TOL))
        return obs

    return h


# ---- K3 / K4 on real sequences ---------------------------------------------


def mk_eom_device(cfg, custom_buffer=None, clock=4):
    from pulser.channels import Rydberg
    from pulser.devices import VirtualDevice
    from pulser.channels.eom import RydbergBeam, RydbergEOM

    B = {"B": RydbergBeam.BLUE, "R": RydbergBeam.RED}
    eom = RydbergEOM(limiting_beam=B[cfg["lim"]], max_limiting_amp=30 * TWO_PI, intermediate_detuning=700 * TWO_PI,
                     controlled_beams=tuple(B[x] for x in cfg["ctrl"]), mod_bandwidth=48.0,
                     multiple_beam_control=cfg.get("multi", True), custom_buffer_time=custom_buffer)
    return VirtualDevice(
        name="eomdev", dimensions=2, rydberg_level=60, max_atom_num=10, max_radial_distance=50, min_atom_distance=4,
        channel_objects=(Rydberg.Global(2 * TWO_PI * 40, TWO_PI * 10, clock_period=clock, min_duration=2 * clock,
                                        max_duration=100000, mod_bandwidth=20.0, eom_config=eom),),
        channel_ids=("ryd_glob",))


def h_seq(shape):
    """K3: programs of EOM calls with symbolic durations; structure of the
    resulting timeline."""
    cfg = shape["cfg"]

    def h(inp):
        stubs.bind(inp)
        from pulser import Sequence
        from pulser.pulse import Pulse
        from pulser.waveforms import ConstantWaveform

        seq = Sequence(l2.mk_register("reg3"), mk_eom_device(cfg, shape.get("custom_buffer")))
        seq.declare_channel("g", "ryd_glob")
        cs = seq._schedule["g"]
        eom = cs.channel_obj.eom_config
        obs = []
        cur = None  # (amp, det_on, det_off)
        for i, op in enumerate(shape["program"]):
            n0 = len(cs.slots)
            if op[0] == "add":
                seq.add(Pulse.ConstantPulse(inp.mult("d%d" % i, 4, 8, 400), 1.0, 0.0, 0.0), "g")
            elif op[0] in ("enable", "modify"):
                amp, det, opt = op[1], op[2], op[3]
                exp_off = facade._unwrap0(eom.calculate_detuning_off(amp, det, opt))
                if op[0] == "enable":
                    seq.enable_eom_mode("g", amp, det, opt)
                else:
                    seq.modify_eom_setpoint("g", amp, det, opt)
                cur = (amp, det, float(exp_off))
                blk = cs.eom_blocks[-1]
                obs.append(("k3:block_setpoint", AND(float(blk.rabi_freq) == amp, float(blk.detuning_on) == det,
                                                      float(blk.detuning_off) == cur[2])))
                call = seq._calls[-1]
                obs.append(("k3:stored_call_has_chosen_off_detuning",
                            call.name in ("enable_eom_mode", "modify_eom_setpoint") and call.kwargs["optimal_detuning_off"] == cur[2]))
                for sl in cs.slots[n0:]:
                    if l1.is_pulse(sl):
                        obs.append(("k3:buffer_at_off_detuning", l1.ref_is_detuned_delay(sl.type) and float(sl.type.detuning[0]) == cur[2]))
            elif op[0] == "eom_pulse":
                seq.add_eom_pulse("g", inp.mult("d%d" % i, 4, 8, 400), op[1], protocol=op[2] if len(op) > 2 else "min-delay")
                sl = cs.slots[-1]
                p = sl.type
                obs.append(("k3:eom_pulse_is_square", isinstance(p.amplitude, ConstantWaveform) and isinstance(p.detuning, ConstantWaveform)))
                obs.append(("k3:eom_pulse_setpoint", AND(float(p.amplitude._value) == cur[0], float(p.detuning._value) == cur[1])))
                for s2 in cs.slots[n0:-1]:
                    if l1.is_pulse(s2):
                        obs.append(("k3:idle_at_off_detuning", l1.ref_is_detuned_delay(s2.type) and float(s2.type.detuning[0]) == cur[2]))
                    else:
                        obs.append(("k3:plain_idle_only_if_off_detuning_zero", cur[2] == 0))
            elif op[0] == "delay":
                seq.delay(inp.mult("d%d" % i, 4, 8, 400), "g")
                sl = cs.slots[-1]
                if cur is not None:
                    if cur[2] == 0:
                        obs.append(("k3:delay_plain", sl.type == "delay"))
                    else:
                        obs.append(("k3:delay_at_off_detuning", l1.is_pulse(sl) and l1.ref_is_detuned_delay(sl.type)
                                    and float(sl.type.detuning[0]) == cur[2]))
            elif op[0] == "disable":
                seq.disable_eom_mode("g")
                cur = None
            # slots inside an open block are pulses at the set-point or idle
            for label, term in l1.inv(cs, dict(clock=4)):
                obs.append(("k3:inv_" + label, term))
        return obs

    return h


def h_drift(shape):
    """K4: with correct_phase_drift=True on every EOM call the phase of each
    EOM pulse and the final phase reference cancel the drift accumulated at
    the off-detuning during every idle interval of the EOM blocks."""
    cfg = shape["cfg"]

    def h(inp):
        stubs.bind(inp)
        from pulser import Sequence

        if shape.get("other"):
            # a second (reusable-device) channel that is LONGER than the EOM channel at every moment: nothing that happens
            # on g depends on it
            import dataclasses as _dc

            seq = Sequence(l2.mk_register("reg3"), _dc.replace(mk_eom_device(cfg, shape.get("custom_buffer")), reusable_channels=True))
            seq.declare_channel("g", "ryd_glob")
            seq.declare_channel("other", "ryd_glob")
            seq.delay(20000, "other")
        else:
            seq = Sequence(l2.mk_register("reg3"), mk_eom_device(cfg, shape.get("custom_buffer")))
            seq.declare_channel("g", "ryd_glob")
        cs = seq._schedule["g"]
        obs = []
        kmax = shape.get("kmax", 12)
        acc = 0.0       # reference: sum of det_off * idle_ns * 1e-3 so far
        det_off = None
        mark = None     # time from which drift is not yet compensated
        basis = "ground-rydberg"

        def ref_phase():
            return seq._basis_ref[basis]["q0"].phase.last_phase

        for i, op in enumerate(shape["program"]):
            before_ref = ref_phase()
            if op[0] == "add":
                from pulser.pulse import Pulse

                seq.add(Pulse.ConstantPulse(inp.mult("d%d" % i, 4, 8, 4 * kmax), 1.0, 0.0, 0.0), "g")
            elif op[0] in ("enable", "modify"):
                t_before = cs.get_duration(include_fall_time=(op[0] == "enable"))
                old_off, old_mark = det_off, mark
                if op[0] == "enable":
                    seq.enable_eom_mode("g", op[1], op[2], op[3], correct_phase_drift=True)
                else:
                    seq.modify_eom_setpoint("g", op[1], op[2], op[3], correct_phase_drift=True)
                det_off = float(cs.eom_blocks[-1].detuning_off)
                buf = cs.slots[-1]
                t_after = buf.tf
                if op[0] == "enable":
                    expect = det_off * (t_after - t_before) * 1e-3
                else:
                    # idle at the old off-detuning since the last pulse, then
                    # the buffer at the new one
                    expect = old_off * (t_before - old_mark) * 1e-3 + det_off * (t_after - t_before) * 1e-3
                obs.append(("k4:%s_compensates_drift" % op[0], congruent(ref_phase(), before_ref + expect)))
                mark = t_after
            elif op[0] == "eom_pulse":
                prog = op[1]
                post = op[3] if len(op) > 3 else 0.0  # a virtual-Z after the pulse, on top of the drift correction
                seq.add_eom_pulse("g", inp.mult("d%d" % i, 4, 8, 4 * kmax), prog, correct_phase_drift=True,
                                  protocol=op[2] if len(op) > 2 else "min-delay", **({"post_phase_shift": post} if post else {}))
                sl = cs.slots[-1]
                expect = det_off * (sl.ti - mark) * 1e-3
                # C10 inside EOM mode: different stored phases => phase-jump gap (at least 2*rise_time) + fall time
                proto = op[2] if len(op) > 2 else "min-delay"
                prev = None
                for cand in cs.slots[-2::-1]:
                    if l1.is_pulse(cand) and not l1.ref_is_detuned_delay(cand.type):
                        prev = cand
                        break
                if prev is not None and proto != "no-delay" and cs.in_eom_mode(prev):
                    chobj = cs.channel_obj
                    need = smax(l1.ref_phase_jump_time(chobj), 2 * chobj.rise_time) + prev.type.fall_time(chobj, in_eom_mode=True)
                    differ = NOT(facade._unwrap0(prev.type.phase) == facade._unwrap0(sl.type.phase))
                    obs.append(("c10:eom_phase_jump_gap", IMPLIES(differ, sl.ti - prev.tf >= need)))
                obs.append(("k4:pulse_phase_compensates_drift",
                            congruent(facade._unwrap0(sl.type.phase), prog + before_ref + expect)))
                obs.append(("k4:pulse_ref_compensates_drift", congruent(ref_phase(), before_ref + expect + post)))
                mark = sl.tf
            elif op[0] == "delay":
                seq.delay(inp.mult("d%d" % i, 4, 8, 4 * kmax), "g")
                obs.append(("k4:delay_keeps_ref", ref_phase() is before_ref or ref_phase() == before_ref))
            elif op[0] == "disable":
                t_end = cs.slots[-1].tf
                seq.disable_eom_mode("g", correct_phase_drift=True)
                expect = det_off * (t_end - mark) * 1e-3
                obs.append(("k4:disable_compensates_drift", congruent(ref_phase(), before_ref + expect)))
                det_off = None
        return obs

    return h


def congruent(a, b):
    if is_sym(a) or is_sym(b):
        q = (a - b) / TWO_PI
        qe = core._r(q)
        return SBool(z3.ToReal(z3.ToInt(qe)) == qe)
    d = (a - b) / TWO_PI
    return abs(d - round(d)) < 1e-9


CFGS = [dict(lim="R", ctrl=["B"]), dict(lim="R", ctrl=["R"]), dict(lim="B", ctrl=["B"]), dict(lim="R", ctrl=["B", "R"]),
        dict(lim="B", ctrl=["B", "R"]), dict(lim="R", ctrl=["B", "R"], multi=False)]
CFGS_MORE = [dict(lim="B", ctrl=["R"]), dict(lim="R", ctrl=["R", "B"], cb=2.0, cr=0.5), dict(lim="B", ctrl=["B", "R"], cb=0.5, cr=2.0),
             dict(lim="R", ctrl=["B"], cb=3.0), dict(lim="B", ctrl=["B", "R"], multi=False), dict(lim="R", ctrl=["B", "R"], max_amp=10 * TWO_PI)]

PROGRAMS = [
    [["enable", 1.0, 0.0, 0.0], ["eom_pulse", 0.0], ["delay"], ["eom_pulse", 1.0], ["disable"]],
    [["add"], ["enable", 2.0, 1.0, -1.0], ["eom_pulse", 0.0], ["eom_pulse", 0.5, "no-delay"], ["modify", 1.0, -1.0, 3.0], ["eom_pulse", 0.5], ["disable"], ["add"]],
    [["enable", 1.0, 0.0, -100.0], ["delay"], ["modify", 3.0, 0.0, 100.0], ["delay"], ["eom_pulse", 0.0], ["disable"]],
    # same nominal phase, short idle gap in between: the drift correction changes the stored phase
    [["enable", 2.0, 0.0, -1.0], ["eom_pulse", 0.5], ["delay"], ["eom_pulse", 0.5], ["eom_pulse", 0.5], ["delay"], ["delay"], ["eom_pulse", 0.5]],
    # new off-detuning exactly 0 after a non-zero one (both beams switched off, balanced light shifts)
    [["enable", 2.0, 1.0, -1.0], ["eom_pulse", 0.0], ["delay"], ["modify", 1.0, 0.0, 0.0], ["eom_pulse", 0.5], ["disable"]],
    # set-point modified right after enabling on an EMPTY channel (the only earlier slot is the initial target slot)
    [["enable", 2.0, 0.0, -1.0], ["modify", 1.0, 0.0, 3.0], ["eom_pulse", 0.0], ["disable"]],
    # post_phase_shift together with the drift correction
    [["enable", 2.0, 0.0, -1.0], ["eom_pulse", 0.5, "min-delay", 0.75], ["delay"], ["eom_pulse", 0.0, "min-delay", 1.25], ["eom_pulse", 1.0], ["disable"]],
    [["add"], ["enable", 1.0, 0.0, 0.0], ["delay"], ["modify", 2.0, 3.0, -5.0], ["delay"], ["modify", 1.0, 0.0, 0.0], ["eom_pulse", 0.5], ["disable"]],
]


def kernels(tier):
    quick = tier == "quick"
    ks = []
    cfgs = CFGS if quick else CFGS + CFGS_MORE
    if quick:
        # (light-shift coefficients other than 1 belong to the quick tier too)
        cfgs = cfgs + [c for c in CFGS_MORE if "cb" in c or "cr" in c][:2]
    for cfg in cfgs:
        ks.append(("eomcfg", dict(cfg=cfg)))
    for cfg in (CFGS[:1] + CFGS[3:4] if quick else CFGS):
        for prog in PROGRAMS:
            for cb in (None, 40):
                ks.append(("seq", dict(cfg=cfg, program=prog, custom_buffer=cb)))
                ks.append(("drift", dict(cfg=cfg, program=prog, custom_buffer=cb, kmax=12 if quick else 40)))
    for prog in PROGRAMS[:3] + PROGRAMS[-2:]:
        ks.append(("drift", dict(cfg=CFGS[0], program=prog, custom_buffer=None, kmax=12, other=True)))
    ks += [("l1", s) for s in l1.eom_shapes(tier)]
    return ks


def harness(kernel, shape):
    if kernel == "eomcfg":
        return h_eomcfg(shape)
    if kernel == "seq":
        return h_seq(shape)
    if kernel == "drift":
        return h_drift(shape)
    if kernel == "l1":
        return l1.filtered(l1.step_harness(shape), ("c15:",))
    raise ValueError(kernel)
