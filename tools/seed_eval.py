#!/usr/bin/env python3
"""Evaluate seeded patches: seed_eval.py <dir-with-patchK.diff/demoK.py> <K> <check ids...>
1. demo on pristine /repo must exit 0; 2. apply patch to /repo; demo must exit != 0;
3. run the given checks; 4. ALWAYS revert /repo (git checkout -- .)."""
import subprocess, sys, os
d, k, ids = sys.argv[1], sys.argv[2], sys.argv[3:]
env = dict(os.environ, PYTHONPATH="/repo/pulser-core:/repo/pulser-simulation")
def demo():
    # demos written in a sub-agent worktree may assert the worktree path: point them at /repo
    import re, tempfile
    src = open(os.path.join(d, "demo%s.py" % k)).read()
    src = re.sub(r"/tmp/wt\d?_C\d+b?", "/repo", src)
    f = tempfile.NamedTemporaryFile("w", suffix=".py", delete=False, dir="/var/tmp")
    f.write(src); f.close()
    try:
        return subprocess.run(["/venv/bin/python", f.name], capture_output=True, text=True, env=env, cwd="/tmp")
    finally:
        os.unlink(f.name)
assert subprocess.run(["git", "-C", "/repo", "status", "--porcelain"], capture_output=True, text=True).stdout.strip() == "", "repo dirty"
r0 = demo()
print("demo pristine rc=%d" % r0.returncode)
a = subprocess.run(["git", "-C", "/repo", "apply", os.path.join(d, "patch%s.diff" % k)], capture_output=True, text=True)
if a.returncode != 0:
    print("APPLY FAILED", a.stderr[:300]); sys.exit(3)
try:
    r1 = demo()
    print("demo patched rc=%d %s" % (r1.returncode, (r1.stdout + r1.stderr).strip().splitlines()[-1][:160] if (r1.stdout + r1.stderr).strip() else ""))
    for id in ids:
        r = subprocess.run(["/verif/vcheck", id], capture_output=True, text=True)
        lines = [l for l in r.stdout.splitlines() if l.startswith(("VIOLATION", "HARNESS", "INCONCL"))]
        print(id, "rc=%d" % r.returncode, *[l[:260] for l in lines[:3]], sep="\n   ")
finally:
    subprocess.run(["git", "-C", "/repo", "checkout", "--", "."])
