#!/bin/sh
# runs every claimed check (tier $1, default quick) and prints one line each
TIER="${1:-quick}"
for id in $(python3 -c "import json; print(' '.join(c['property_id'] for c in json.load(open('/verif/MANIFEST.json'))['checks']))"); do
  sh /verif/vcheck $id $TIER | grep -E "^(VIOLATION|HARNESS|INCONCL|KNOWN|C[0-9]+ tier)" | cut -c1-250
done
