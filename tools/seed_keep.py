#!/usr/bin/env python3
"""seed_keep.py <ID> <K> <status> <caught_by/notes...>: archive a confirmed seeded change under /verif/seeded/<ID>-<K>/"""
import json, os, shutil, sys
pid, k, status = sys.argv[1], sys.argv[2], sys.argv[3]
args = sys.argv[4:]
src = "/tmp/out_%s" % pid
as_k = k
if "--src" in args:
    i = args.index("--src"); src = args[i + 1]; del args[i:i + 2]
if "--as" in args:
    i = args.index("--as"); as_k = args[i + 1]; del args[i:i + 2]
rest = " ".join(args)
dst = "/verif/seeded/%s-%s" % (pid, as_k)
os.makedirs(dst, exist_ok=True)
shutil.copy(os.path.join(src, "patch%s.diff" % k), os.path.join(dst, "patch.diff"))
shutil.copy(os.path.join(src, "demo%s.py" % k), os.path.join(dst, "demo.py"))
notes = open(os.path.join(src, "notes%s.md" % k)).read()
open(os.path.join(dst, "notes.md"), "w").write(notes)
meta = dict(
    property=pid, seed=int(as_k), origin="independent sub-agent given only the property text and a scratch worktree",
    needs_to_manifest=notes.strip().split("\n\n")[0][:600],
    confirmed=("demo.py exits 0 on the pristine tree and non-zero with patch.diff applied (PYTHONPATH=/repo/pulser-core:/repo/pulser-simulation); "
               "sub-agent reported the full tests/ directory unchanged (1107 passed / 183 skipped) with the patch"),
    ran="tools/seed_eval.py /tmp/out_%s %s %s  (git -C /repo apply patch.diff; vcheck; git -C /repo checkout -- .)" % (pid, k, pid),
    detection=status, detail=rest,
)
json.dump(meta, open(os.path.join(dst, "meta.json"), "w"), indent=1)
print("kept", dst, status)
