#!/usr/bin/env python3
"""Re-run every archived seeded change against the check that is recorded to catch it.
usage: VERIF_REPO=<scratch copy of /repo> tools/seed_regress.py [ID-prefix ...]
The scratch copy is patched and restored for each seed; /repo itself is never touched."""
import glob, json, os, re, subprocess, sys
here = os.path.dirname(os.path.dirname(os.path.abspath(__file__)))
repo = os.environ.get("VERIF_REPO")
assert repo and repo != "/repo", "set VERIF_REPO to a scratch copy"
sel = sys.argv[1:]
bad = []
def key(d):
    n = os.path.basename(os.path.dirname(d)); a, b = n.split("-"); return (a, int(b))
for mf in sorted(glob.glob(os.path.join(here, "seeded", "*", "meta.json")), key=key):
    name = os.path.basename(os.path.dirname(mf))
    if sel and not any(name.startswith(s) for s in sel):
        continue
    m = json.load(open(mf))
    prop = m["property"]
    if m["detection"] == "not caught":
        print(name, "recorded as not caught (see meta.json): skipped", flush=True)
        continue
    mo = re.search(r"caught by the (C\d+) check", m["detection"])
    check = mo.group(1) if mo else prop
    patch = os.path.join(os.path.dirname(mf), "patch.diff")
    subprocess.run(["git", "-C", repo, "reset", "--hard", "-q"], check=True)
    a = subprocess.run(["git", "-C", repo, "apply", patch], capture_output=True, text=True)
    if a.returncode != 0:
        # the repository moved on (repairs): fall back to a 3-way merge of the patch
        a = subprocess.run(["git", "-C", repo, "apply", "--3way", patch], capture_output=True, text=True)
    if a.returncode != 0:
        print(name, "APPLY-FAILED", a.stderr.strip()[:120]); bad.append(name); continue
    try:
        r = subprocess.run(["sh", os.path.join(here, "vcheck"), check], capture_output=True, text=True, env=dict(os.environ, VERIF_REPO=repo))
        labs = sorted({l.split("label=")[1].split()[0] for l in r.stdout.splitlines() if l.startswith("VIOLATION")})
        print(name, "check=%s rc=%d" % (check, r.returncode), ",".join(labs)[:160], flush=True)
        if r.returncode != 1:
            bad.append(name)
    finally:
        subprocess.run(["git", "-C", repo, "reset", "--hard", "-q"], check=True)
print("SEEDS-NOT-DETECTED:", bad)
sys.exit(1 if bad else 0)
