#!/usr/bin/env python3
"""Self-test helper: apply a one-line textual mutation to /repo, run checks, revert.
usage: mutate.py <file-rel-to-/repo> <old> <new> -- C02 C03 ...   (tier from $VERIF_TIER)
Never leaves /repo modified (git checkout in finally)."""
import subprocess, sys
args = sys.argv[1:]
i = args.index("--")
f, old, new = args[:i]
ids = args[i+1:]
p = "/repo/" + f
s = open(p).read()
assert s.count(old) >= 1, "pattern not found"
open(p, "w").write(s.replace(old, new, 1))
try:
    for id in ids:
        r = subprocess.run(["/verif/vcheck", id], capture_output=True, text=True)
        lines = [l for l in r.stdout.splitlines() if l.startswith(("VIOLATION", "HARNESS", "INCONCL"))]
        print(id, "rc=%d" % r.returncode, *[l[:230] for l in lines[:4]], sep="\n   ")
finally:
    subprocess.run(["git", "-C", "/repo", "checkout", "--", f])
