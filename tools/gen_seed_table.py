#!/usr/bin/env python3
"""Rewrites the seeded-changes table of DESIGN.md (between the SEEDS markers) from seeded/*/meta.json."""
import glob, json, os, re
p = "/verif/DESIGN.md"
s = open(p).read()
rows = []
def key(d):
    n = os.path.basename(os.path.dirname(d)); a, b = n.split("-"); return (a, int(b))
for d in sorted(glob.glob("/verif/seeded/*/meta.json"), key=key):
    m = json.load(open(d)); name = os.path.basename(os.path.dirname(d))
    rows.append("| %s | %s | %s |" % (name, m["detection"], m["detail"].replace("|", "/")[:330]))
n_total = len(rows)
n_direct = sum(1 for r in rows if "| caught |" in r)
n_after = sum(1 for r in rows if "after strengthening" in r)
n_other = sum(1 for r in rows if "caught by the" in r)
tab = ("<!-- SEEDS-BEGIN -->\n| seed | detection | check / label, notes |\n|---|---|---|\n" + "\n".join(rows) +
       "\n\nTotals: %d seeded changes; %d caught on the first run, %d caught after strengthening the check, %d caught only by the check of a "
       "neighbouring property, %d not caught.\n<!-- SEEDS-END -->" % (n_total, n_direct, n_after, n_other, n_total - n_direct - n_after - n_other))
if "<!-- SEEDS-BEGIN -->" in s:
    s = re.sub(r"<!-- SEEDS-BEGIN -->.*?<!-- SEEDS-END -->", lambda m: tab, s, flags=re.S)
else:
    i = s.index("| seed | detection | check / label, notes |")
    j = s.index('"caught after strengthening" =')
    s = s[:i] + tab + "\n\n" + s[j:]
open(p, "w").write(s)
print(n_total, n_direct, n_after, n_other)
