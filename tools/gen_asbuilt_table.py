#!/usr/bin/env python3
"""Inserts/refreshes the as-built coverage table of DESIGN.md from evidence/*.json (quick tier on the unchanged tree)."""
import glob, json, os, re
p = "/verif/DESIGN.md"
s = open(p).read()
rows = []
for f in sorted(glob.glob("/verif/evidence/C*.json")):
    e = json.load(open(f)); c = e["coverage"]
    kern = ", ".join("%s(%d)" % (k, v["shapes"]) for k, v in sorted(c.get("per_kernel", {}).items()))
    rows.append("| %s | %s | %d | %d | %d | %d | %.0f | %s |" % (
        e["property_id"], kern, c.get("shapes", 0), c.get("paths", 0), c.get("evaluations", 0), c.get("obligations", 0), e["wall_s"],
        ", ".join(c.get("known_findings_hit", [])) or "-"))
tab = ("<!-- ASBUILT-BEGIN -->\n| id | kernels (shapes) | shapes | paths | solver queries | obligations | wall s | known findings hit |\n"
       "|---|---|---|---|---|---|---|---|\n" + "\n".join(rows) + "\n<!-- ASBUILT-END -->")
if "<!-- ASBUILT-BEGIN -->" in s:
    s = re.sub(r"<!-- ASBUILT-BEGIN -->.*?<!-- ASBUILT-END -->", lambda m: tab, s, flags=re.S)
else:
    s = s.replace("### 11.2 Deviations from the plan (and why)", "### 11.1b Quick tier on the unchanged tree (from the evidence files)\n\n" + tab +
                  "\n\nThe thorough tier of all sixteen checks takes about 80 minutes on 16 cores (C13 23 min with histories of length 4, "
                  "C12 23 min, C19 16 min, the L1 family 4-5 min each); every thorough run on the unchanged tree exits 0.\n\n"
                  "### 11.2 Deviations from the plan (and why)")
open(p, "w").write(s)
print(len(rows))
