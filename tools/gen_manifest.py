#!/usr/bin/env python3
"""Regenerates /verif/MANIFEST.json from the table below (single source)."""
import json, os

V = "/verif"
BASE_CMD = json.load(open("/root/.vp/BASELINE.json"))["cmd"]

L1_NOTE = ("Trusted base: z3; the proxy engine symx (proxies + replay-based DFS); environment stubs listed in the evidence "
           "file under 'assumptions' (modulation buffers as a nondeterministic value within [0, rise_time], symbolic rise_time, "
           "StubPulse); bounds listed under coverage.bounds. Every solver model is replayed on the unshimmed code before it is reported.")

CLAIMED = {
 "C01": dict(text="Bounded symbolic model checking of the real limit checks: Channel.validate_duration / validate_pulse, DMM.validate_pulse "
             "on a real DetuningMap, Pulse.__init__, sample finiteness of short Ramp/Blackman/Constant waveforms and the max-sequence-duration / "
             "refusal-has-a-cause obligations of the L1 scheduler step, the Sequence glue (add / add_dmm_detuning incl. a DMM configured twice / "
             "enable_eom_mode + add_eom_pulse with symbolic duration, amplitude, detuning) and the DMM pulse created by an SLM mask; limits, durations "
             "and sample values are solver variables.", ref="§6 C01, §11",
             note="Trusted base: z3, symx, decimal fixed-point model of np.round(x,6) (D-mode, 1e-7 grid) and exact reals for amplitudes; "
             "stubs in the evidence file. Known findings F1, F2a, F2b, F4, F16 are reported as KNOWN-FINDING, any other violation as VIOLATION."),
 "C07": dict(text="Bounded symbolic model checking of the phase bookkeeping: _QubitRef/_PhaseTracker (<=4 operations) and Sequence programs "
             "(add with post_phase_shift, phase_shift on subsets, retarget, two channels per basis) against a reference accumulator, as an "
             "inductive per-call step; phases on the grid 2*pi*k/360.", ref="§6 C07",
             note="Trusted base: z3, symx, SPhase grid proxy (x % 2pi = k mod 360), proxies hash to 0; emulator (Ramsey) sentence outside the claim."),
 "C09": dict(text="Bounded symbolic model checking of call atomicity and read-only purity on real Sequence objects: a concrete prefix "
             "then 1-2 calls (24 call kinds incl. every documented refusal cause) with symbolic durations/amplitudes/detunings; a full structural "
             "snapshot (timelines, EOM blocks, phase references, call logs, flags) must be unchanged after every raising call and after every "
             "read-only call; build()/switch_register copies have the identical timeline; plus raise=>unchanged on the L1 scheduler step.", ref="§6 C09",
             note="Trusted base: z3, symx, stubs in the evidence file. Findings F9/F9b are reported as KNOWN-FINDING (region = only fall-time/alignment "
             "delays, or the closing of the EOM block, are left behind); F6 was repaired (fix: commit 2a6983f4)."),
 "C13": dict(text="Bounded symbolic model checking of the typestate: operation codes of call histories (length 3, or a concrete prefix + 2) "
             "over a 24-call alphabet are solver variables; every call is issued on a real Sequence (physical-like VirtualDevice with EOM/DMM/SLM, "
             "MockDevice with XY) and its accept/refuse outcome plus the observable state (is_parametrized, is_measured, is_in_eom_mode, "
             "available_channels) must agree with a reference automaton over the documented mode.", ref="§6 C13",
             note="Trusted base: z3, symx, the reference automaton in checks/c13.py (answers accept/refuse/unspecified; only the first two are asserted). "
             "Findings F11, F12 are reported as KNOWN-FINDING."),
 "C15": dict(text="Bounded symbolic model checking of EOM mode: RydbergEOM.calculate_detuning_off/detuning_off_options against the documented "
             "light-shift formula with symbolic set-points (exact reals + exact square roots), EOM blocks/buffers on the inductive L1 scheduler step, "
             "Sequence-level programs (square pulses at the set-point, idle at the off-detuning, stored chosen off-detuning) and the phase-drift "
             "bookkeeping of correct_phase_drift with symbolic idle durations.", ref="§6 C15",
             note="Trusted base: z3 (QF_NRA for K1), symx, stubs in the evidence file; EOM configuration numbers concrete; emulator equivalence outside the claim."),
 "C05": dict(text="Bounded symbolic model checking of the emulated Hamiltonian: the real QutipEmulator.from_sequence / __init__, "
             "Hamiltonian.__init__ / set_config / _extract_samples / _construct_hamiltonian / get_hamiltonian (over the real sampler and "
             "to_nested_dict) run on 12 (quick) / 17 (thorough) programs - one to three bases, global/local/multi-target channels, DMM with symbolic "
             "weights, SLM mask in Ising and XY mode, 3D register with a tilted magnetic field, permuted atom ids, EOM block, phase shifts - with "
             "concrete timelines/phases/geometry and symbolic amplitudes, detunings and detuning-map weights; for every integer t in [0,T) every "
             "entry of H(t) is compared with the documented formula built from the schedule's slots (state ordering, tensor order, "
             "Omega/2 e^{-i phi}|a><b| + h.c. - delta|b><b|, C6/R^6 n_i n_j, C3(1-3cos^2)/R^3 exchange with masked atoms decoupled), "
             "plus Hermiticity and the documented basis vectors; also on coarser sampling grids, after configuration changes (SPAM noise then "
             "reset, dephasing, noiseless view, an earlier leakage emulator) with a stubbed state-preparation draw.", ref="§12",
             note="Trusted base: z3, symx (complex proxy = pair of exact reals), and the stand-in for qutip.QobjEvo (keeps the (operator, "
             "coefficient array) terms; sum on grid times) - all other QuTiP calls are the compiled ones on concrete data. Entries compared within "
             "1e-6 absolute (+1e-9 relative on interaction strengths). Outside: noise, sampling_rate<1, modulation, t=T, overlapping non-zero pulses "
             "of two channels on one atom/basis, symbolic geometry or phases. Known finding F17 (phases of two Global channels on one basis add) is "
             "reported as KNOWN-FINDING; F18 (XY mask interaction off by 1 ns) and F25 (leakage state leaking into later emulators) were repaired in /repo."),
 "C06": dict(text="Bounded symbolic model checking of sampling: 17 programs (global/local/multi-target channels, retargets, DMM with "
             "detuning map, XY + SLM mask, EOM blocks incl. modify and enable/disable on an empty channel) with concrete timelines and symbolic "
             "amplitudes, detunings and detuning-map weights; every nanosecond of every channel, of the per-atom view (all_local False/True) and of "
             "extend_duration is compared with a reference renderer written from the slot list.", ref="§6 C06",
             note="Trusted base: z3, symx (numpy object arrays carry the proxies; slicing/broadcast are numpy's own). Timelines concrete (a bound); "
             "modulated samples and the padding of a channel still in EOM mode in the per-atom view are outside the claim."),
 "C16": dict(text="Bounded symbolic model checking of waveform/pulse contracts: index/slice arithmetic for all integer arguments against Python's "
             "slice semantics, sample count/finiteness/documented values/integral/scaling/division/equality of Constant, Ramp, Custom, Composite and "
             "Blackman waveforms for durations 1-6 with symbolic parameters, Blackman / Kaiser from_max_val (never above max_val, area kept, one ns "
             "shorter would exceed; window length concretised by forking, symbolic area), Pulse phase range, ArbitraryPhase reconstruction at "
             "every sample, and a binary64 (QF_FP) query for the wrap edge of x % 2*pi.", ref="§6 C16, §11",
             note="Trusted base: z3, symx; R-mode exact reals with tolerance 1e-9 where binary64 constants are involved. Findings F2a/F2b/F3 are reported "
             "as KNOWN-FINDING. Interpolated numerics, Kaiser short-window branch and from_max_val outside the stated window lengths are outside the claim."),
 "C12": dict(text="Bounded symbolic model checking of device geometry validation: _validate_coords/validate_register on real devices with up to "
             "two symbolic atoms among three (distances compared in squared form, offending pairs/atoms checked exactly), layout trap counts and "
             "filling fraction, BaseDevice parameter validation against the documented constraints, and closure of Register.max_connectivity / "
             "with_automatic_layout (symbolic spacing / filling fractions).", ref="§6 C12",
             note="Trusted base: z3 (QF_NRA), symx, squared-form sqrt proxy, scipy pdist/squareform contract shims. A band of 1e-9 around each "
             "distance threshold is unspecified (binary64 roots vs exact reference) except for atoms on one axis, where thresholds are decided exactly."),
 "C19": dict(text="Bounded symbolic model checking of canonical trap numbering: RegisterLayout built from 2-3 symbolic points (1e-7 decimal grid, so "
             "near-ties at the 1e-6 rounding precision are in the domain) in permuted orders gives identical, ascending sorted coordinates; "
             "define_register places qubits on their traps; DetuningMap weights follow the sorted traps and the qubit weight map is order "
             "independent; accessors return copies; mappable registers resolve in declared order (kernel shared with C08, concrete).", ref="§6 C19, §11",
             note="Trusted base: z3, symx, D-mode fixed-point rounding, lexsort/unique/isclose contract shims. static_hash/== (SHA-256) and coordinate "
             "look-ups by float tuples are outside the claim."),
 "C18": dict(text="Bounded symbolic model checking of switch_device / switch_register: concrete programs (timing, EOM, retarget) on device A, "
             "device B = A with channel parameters replaced by solver variables (min/max duration, phase-jump time, retarget times, amplitude and "
             "detuning limits) or concrete variants (clock, bandwidth, EOM configuration, ids/order/reusability); strict=True must raise or return "
             "the identical timeline for all parameter values, strict=False must satisfy every limit of B.", ref="§6 C18",
             note="Trusted base: z3, symx, stubs in the evidence file. Finding F5 (custom_phase_jump_time / min_duration not compared) is reported as KNOWN-FINDING."),
 "C04": dict(text="Bounded symbolic model checking of sequence serialisation: 17 built programs and 10 parametrized templates covering every "
             "operation kind and optional argument at default and non-default value (waveform kinds, protocols, EOM incl. drift correction, DMM, SLM, "
             "XY + magnetic field, layout register, measurement, variables/items/arithmetic) with symbolic numeric arguments; real serializer -> "
             "real jsonschema validation -> real deserializer; device/register/channels/timeline/pulses/phase references/measurement compared "
             "for all values; templates compared after build() for symbolic variable values; same for the legacy PulserEncoder/Decoder.", ref="§6 C04",
             note="Trusted base: z3, symx, token JSON facade (schema numeric ranges checked for a witness value only), stubs in the evidence file."),
 "C08": dict(text="Bounded symbolic model checking of build(): 16 templates (variables, items, + - * / // % ** abs sin, EOM and DMM arguments, "
             "index targeting) are built three times (values v, v', v again) with symbolic variable values and compared with direct construction; "
             "template unchanged; mappable registers resolve to the requested traps in declared order (concrete enumeration).", ref="§6 C08",
             note="Trusted base: z3, symx, stubs in the evidence file; np.sin etc. of variables are uninterpreted functions; mappable-register cases are concrete."),
 "C17": dict(text="Bounded symbolic model checking of construction and abstract-repr round trips: NoiseModel (all 1-/2-subsets of 9 numeric "
             "parameters symbolic: active types = non-zero parameters, acceptance = documented ranges, field-wise round trip), Device/VirtualDevice "
             "with EOM/DMM and 12 optional-field patterns (symbolic channel and device numbers, real schema validation, field-wise equality), "
             "Register/Register3D/RegisterLayout/DetuningMap with symbolic coordinates and weights, EmulationConfig with default observables, "
             "StateRepr, noise model and symbolic evaluation times, NoiseModel -> SimConfig -> NoiseModel (symbolic rates/probabilities, effective-noise "
             "channels), plus independence of repeated decodes.", ref="§6 C17, §11",
             note="Trusted base: z3, symx, token JSON facade. Findings F14, F15, F21 are reported as KNOWN-FINDING. Results, QuTiP-backed State/Operator classes and "
             "the uK<->K temperature conversion of SimConfig are outside the claim; aliasing is decided by identity/mutation checks."),
 "C02": dict(text="Bounded symbolic model checking of the real _Schedule operations: one operation from an arbitrary state "
             "satisfying the representation invariant (inductive step), all times/durations/fall times/limits as solver variables; "
             "exhaustive over paths and values inside the stated slot-count/clock bounds.", ref="§6 C02, §5 L1"),
 "C03": dict(text="Same inductive L1 step with two channels: start time of the new pulse equals the reference earliest admissible "
             "instant (no-conflict + minimality), for all values within the bounds.", ref="§6 C03"),
 "C10": dict(text="Same inductive L1 step: phase-jump gap and retarget interval/fixed-time/after-fall obligations for arbitrary "
             "intervening slots.", ref="§6 C10"),
}

NOT_YET = "check not built yet in this round (planned in DESIGN.md §6)"
NA = {
 "C11": "adaptive ODE / master-equation integration and random sampling have no bounded symbolic encoding; the one solver-shaped kernel needs bit-precise binary64 mul/div which z3 and cvc5 did not decide in 900 s (DESIGN §7)",
 "C14": "FFT-based Gaussian filter (np.fft, compiled, transcendental kernel, trip count = signal length) is outside solver reach (DESIGN §7)",
 "C20": "observable values are traces/expectations of QuTiP objects; only the evaluation-time matching rule would be encodable, leaving two of three sentences undecided (DESIGN §7)",
}

def main():
    props = [json.loads(l) for l in open(os.path.join(V, "properties.jsonl"))]
    checks = []
    for p in props:
        pid = p["id"]
        if pid in CLAIMED:
            c = CLAIMED[pid]
            checks.append(dict(
                property_id=pid,
                quick_cmd="sh /verif/vcheck %s quick" % pid,
                thorough_cmd="sh /verif/vcheck %s thorough" % pid,
                evidence_file="/verif/evidence/%s.json" % pid,
                replay_cmd_template="/verif/.venv/bin/python {path}",
                engine="symx",
                level_claimed=dict(category="model_checking", text=c["text"], design_ref=c["ref"]),
                level_note=c.get("note", L1_NOTE),
                technique=c.get("technique", "symbolic execution of the real Python functions on z3-backed proxies (path-exhaustive, bounded shapes) + SMT decision of each obligation + concrete replay of every counterexample and of one path witness per shape on the unshimmed code"),
            ))
    na = []
    for p in props:
        pid = p["id"]
        if pid in CLAIMED:
            continue
        na.append(dict(property_id=pid, reason=NA.get(pid, NOT_YET)))
    m = dict(
        version=1,
        setup_cmd="sh /verif/setup.sh",
        hooks=dict(guard="none (no source hooks: shims are installed by rebinding module globals inside the check process)",
                   enable="n/a - checks import /repo/pulser-core and /repo/pulser-simulation directly (PYTHONPATH) on every run",
                   baseline_off_cmd=BASE_CMD.replace(" --junitxml=<file>", ""),
                   source_commits=[], add_only=True),
        engines=[dict(name="symx", path="/verif/symx", serves_properties=sorted(CLAIMED),
                      kind_free_text="proxy-based symbolic execution of the real CPython functions with z3 (replay-based DFS over branch decisions), obligations decided by SMT, models replayed concretely")],
        checks=checks,
        not_applicable=na,
        notes="See DESIGN.md. Exit 2 = harness error/inconclusive (never a verdict).",
    )
    json.dump(m, open(os.path.join(V, "MANIFEST.json"), "w"), indent=1)
    print("claimed:", sorted(CLAIMED), "not_applicable:", [x["property_id"] for x in na])

if __name__ == "__main__":
    main()
