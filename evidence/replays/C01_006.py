#!/verif/.venv/bin/python
# Replay of a solver counterexample against the unmodified code (no shims).
# property=C01 kernel=seqwf label=seqwf:scheduled_average_not_below_min_avg_amp
import sys
sys.path[:0] = ['/repo' + "/pulser-core", '/repo' + "/pulser-simulation", "/verif"]
from symx.replay import replay
sys.exit(replay(check='checks.c01', kernel='seqwf', shape={'wf': 'blackman', 'd': 17, 'minavg': 16},
                assignment={'min_avg_amp': '1399141976314427194364211434150839038281078733450741776998762438423076050727889/66559249146679461923714607755982329123387589976082168842406286777974259712000', 'area': '30264189495929736/45035996273704955', 'det': 0}, label='seqwf:scheduled_average_not_below_min_avg_amp'))
