#!/verif/.venv/bin/python
# Replay of a solver counterexample against the unmodified code (no shims).
# property=C01 kernel=seq label=seq:scheduled_duration
import sys
sys.path[:0] = ['/repo' + "/pulser-core", '/repo' + "/pulser-simulation", "/verif"]
from symx.replay import replay
sys.exit(replay(check='checks.c01', kernel='seq', shape={'device': 'virt', 'call': 'add_dmm', 'prior': False, 'rem': 3},
                assignment={'amp': '0/1', 'det': -5}, label='seq:scheduled_duration'))
