#!/verif/.venv/bin/python
# Replay of a solver counterexample against the unmodified code (no shims).
# property=C01 kernel=seqwf label=seqwf:scheduled_average_not_below_min_avg_amp
import sys
sys.path[:0] = ['/repo' + "/pulser-core", '/repo' + "/pulser-simulation", "/verif"]
from symx.replay import replay
sys.exit(replay(check='checks.c01', kernel='seqwf', shape={'wf': 'blackman', 'd': 17, 'minavg': 16},
                assignment={'min_avg_amp': '12411968780872788392412763834192422212483546362567477042558327044447/186154682926743697509456849816930143380810479518311728538610875631278135181312', 'area': '53176277539021527133415077294879999430754638300531215759638254889/46913982592425326993310698038540862747180060362477754167996692447398723584000', 'det': 0}, label='seqwf:scheduled_average_not_below_min_avg_amp'))
