#!/verif/.venv/bin/python
# Replay of a solver counterexample against the unmodified code (no shims).
# property=C01 kernel=seq label=seq:every_scheduled_eom_slot_within_limits
import sys
sys.path[:0] = ['/repo' + "/pulser-core", '/repo' + "/pulser-simulation", "/verif"]
from symx.replay import replay
sys.exit(replay(check='checks.c01', kernel='seq', shape={'device': 'virt', 'call': 'eom_det', 'prior': False, 'rem': 0},
                assignment={'dur/k': 2, 'amp': '1/1024', 'det': -20000000000, 'det_on': '-257359/1024'}, label='seq:every_scheduled_eom_slot_within_limits'))
