#!/verif/.venv/bin/python
# Replay of a solver counterexample against the unmodified code (no shims).
# property=C01 kernel=l1 label=c01:refusal_has_cause
import sys
sys.path[:0] = ["/repo/pulser-core", "/repo/pulser-simulation", "/verif"]
from symx.replay import replay
sys.exit(replay(check='checks.c01', kernel='l1', shape={'own': {'clock': 1, 'local': False, 'slots': [], 'mod': True, 'pj': 'custom', 'targets_a': ['q0'], 'targets_b': ['q1']}, 'op': ['add_pulse', 'min-delay', 'A'], 'maxseq': True, 'nbarriers': 1},
                assignment={'max_sequence_duration': 2, 'own.min_duration': 1, 'own.tr': 1, 'own.pjt': 0, 'new.dur': 1, 'barrier0': 1}, label='c01:refusal_has_cause'))
