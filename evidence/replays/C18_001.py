#!/verif/.venv/bin/python
# Replay of a solver counterexample against the unmodified code (no shims).
# property=C18 kernel=switch label=strict:identical_timeline
import sys
sys.path[:0] = ['/repo' + "/pulser-core", '/repo' + "/pulser-simulation", "/verif"]
from symx.replay import replay
sys.exit(replay(check='checks.c18', kernel='switch', shape={'program': 'timing', 'sym': [['ryd_loc', 'custom_phase_jump_time']], 'strict': True},
                assignment={'buf#1.start': 0, 'buf#1.end': 1, 'buf#2.start': 0, 'buf#2.end': 1, 'buf#3.start': 0, 'buf#3.end': 6, 'buf#4.start': 0, 'buf#4.end': 7, 'buf#7.start': 0, 'buf#7.end': 2, 'buf#8.start': 0, 'buf#8.end': 3, 'ryd_loc.custom_phase_jump_time': 50}, label='strict:identical_timeline'))
