#!/verif/.venv/bin/python
# Replay of a solver counterexample against the unmodified code (no shims).
# property=C17 kernel=noise label=k1:roundtrip_field:samples_per_run
import sys
sys.path[:0] = ['/repo' + "/pulser-core", '/repo' + "/pulser-simulation", "/verif"]
from symx.replay import replay
sys.exit(replay(check='checks.c17', kernel='noise', shape={'params': ['amp_sigma'], 'runs': True},
                assignment={'amp_sigma': '0/1'}, label='k1:roundtrip_field:samples_per_run'))
