#!/verif/.venv/bin/python
# Replay of a solver counterexample against the unmodified code (no shims).
# property=C09 kernel=copy label=copy:switch_register_copy_unaffected_by_calls_on_original
import sys
sys.path[:0] = ['/repo' + "/pulser-core", '/repo' + "/pulser-simulation", "/verif"]
from symx.replay import replay
sys.exit(replay(check='checks.c09', kernel='copy', shape={'device': 'virt_maxseq', 'via': 'switch_register'},
                assignment={'d0/k': 2, 'a0': '1/1024', 'det0': -1, 'd1/k': 2, 'a1': '1/1024', 'buf#1.start': 0, 'buf#1.end': 22, 'buf#2.start': 0, 'buf#2.end': 23, 'buf#5.start': 0, 'buf#5.end': 2, 'buf#6.start': 0, 'buf#6.end': 3, 'dl/k': 2, 'buf#13.start': 0, 'buf#13.end': 12, 'buf#14.start': 0, 'buf#14.end': 13}, label='copy:switch_register_copy_unaffected_by_calls_on_original'))
