#!/verif/.venv/bin/python
# Replay of a solver counterexample against the unmodified code (no shims).
# property=C06 kernel=program label=extend:keeps_samples
import sys
sys.path[:0] = ['/repo' + "/pulser-core", '/repo' + "/pulser-simulation", "/verif"]
from symx.replay import replay
sys.exit(replay(check='checks.c06', kernel='program', shape={'program': 'eom_modify', 'ext': [0, 3]},
                assignment={'a1': '1/1024', 'd1': '-1/1024'}, label='extend:keeps_samples'))
