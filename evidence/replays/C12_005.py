#!/verif/.venv/bin/python
# Replay of a solver counterexample against the unmodified code (no shims).
# property=C12 kernel=layout_sym label=k2:accepted_layout_respects_min_distance
import sys
sys.path[:0] = ['/repo' + "/pulser-core", '/repo' + "/pulser-simulation", "/verif"]
from symx.replay import replay
sys.exit(replay(check='checks.c12', kernel='layout_sym', shape={'mind': 1.0, 'range': 1e-05},
                assignment={'tx': -11, 'ty': 0}, label='k2:accepted_layout_respects_min_distance'))
