#!/verif/.venv/bin/python
# Replay of a solver counterexample against the unmodified code (no shims).
# property=C12 kernel=coords label=k1:offending_pairs_exact
import sys
sys.path[:0] = ["/repo/pulser-core", "/repo/pulser-simulation", "/verif"]
from symx.replay import replay
sys.exit(replay(check='checks.c12', kernel='coords', shape={'dims': 2, 'n': 3, 'nsym': 1, 'mind': True, 'maxr': True, 'maxn': True},
                assignment={'min_atom_distance': '10380285371497399/1125899906842624', 'max_radial_distance': '0/1', 'max_atom_num': 3, 'x0_0': '6291455/1048576', 'x0_1': '0/1'}, label='k1:offending_pairs_exact'))
