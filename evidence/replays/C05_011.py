#!/verif/.venv/bin/python
# Replay of a solver counterexample against the unmodified code (no shims).
# property=C05 kernel=ham label=ham:offdiag_other_global_channel_phase#10
import sys
sys.path[:0] = ['/repo' + "/pulser-core", '/repo' + "/pulser-simulation", "/verif"]
from symx.replay import replay
sys.exit(replay(check='checks.c05', kernel='ham', shape={'program': 'two_glob'},
                assignment={'a0': '1/2', 'd0': '-1/1', 'a1': '1/2', 'd1': '-1/1'}, label='ham:offdiag_other_global_channel_phase#10'))
