#!/verif/.venv/bin/python
# Replay of a solver counterexample against the unmodified code (no shims).
# property=C12 kernel=layout_sym label=k2:layout_keeps_every_trap
import sys
sys.path[:0] = ['/repo' + "/pulser-core", '/repo' + "/pulser-simulation", "/verif"]
from symx.replay import replay
sys.exit(replay(check='checks.c12', kernel='layout_sym', shape={'mind': 0.0, 'range': 1e-05},
                assignment={'tx': -5, 'ty': -5}, label='k2:layout_keeps_every_trap'))
