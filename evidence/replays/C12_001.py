#!/verif/.venv/bin/python
# Replay of a solver counterexample against the unmodified code (no shims).
# property=C12 kernel=coords label=k1:accepted_register_fits
import sys
sys.path[:0] = ['/repo' + "/pulser-core", '/repo' + "/pulser-simulation", "/verif"]
from symx.replay import replay
sys.exit(replay(check='checks.c12', kernel='coords', shape={'dims': 3, 'n': 1, 'nsym': 1, 'mind': True, 'maxr': True, 'maxn': False},
                assignment={'min_atom_distance': '0/1', 'max_radial_distance': '1/1', 'x0_0': '1/1', 'x0_1': '1/1', 'x0_2': '0/1'}, label='k1:accepted_register_fits'))
