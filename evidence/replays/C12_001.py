#!/verif/.venv/bin/python
# Replay of a solver counterexample against the unmodified code (no shims).
# property=C12 kernel=maxconn label=k4:max_connectivity_register_is_accepted
import sys
sys.path[:0] = ['/repo' + "/pulser-core", '/repo' + "/pulser-simulation", "/verif"]
from symx.replay import replay
sys.exit(replay(check='checks.c12', kernel='maxconn', shape={'n': 2, 'spacing': True, 'maxr': True},
                assignment={'spacing': '5/1', 'max_radial_distance': '2/1'}, label='k4:max_connectivity_register_is_accepted'))
