#!/verif/.venv/bin/python
# Replay of a solver counterexample against the unmodified code (no shims).
# property=C12 kernel=coords label=k1:offending_pairs_exact
import sys
sys.path[:0] = ["/repo/pulser-core", "/repo/pulser-simulation", "/verif"]
from symx.replay import replay
sys.exit(replay(check='checks.c12', kernel='coords', shape={'dims': 2, 'n': 4, 'nsym': 0, 'mind': True, 'maxr': False, 'maxn': False, 'shift': True},
                assignment={'min_atom_distance': '295/32'}, label='k1:offending_pairs_exact'))
