#!/verif/.venv/bin/python
# Replay of a solver counterexample against the unmodified code (no shims).
# property=C12 kernel=coords label=k1:offending_pairs_wellformed
import sys
sys.path[:0] = ['/repo' + "/pulser-core", '/repo' + "/pulser-simulation", "/verif"]
from symx.replay import replay
sys.exit(replay(check='checks.c12', kernel='coords', shape={'dims': 2, 'n': 2, 'nsym': 1, 'mind': False, 'maxr': True, 'maxn': False, 'unsorted': True},
                assignment={'max_radial_distance': '0/1', 'x0_0': '6/1', 'x0_1': '0/1'}, label='k1:offending_pairs_wellformed'))
