#!/verif/.venv/bin/python
# Replay of a solver counterexample against the unmodified code (no shims).
# property=C09 kernel=atomic label=atomic:declare_bad_target#1
import sys
sys.path[:0] = ['/repo' + "/pulser-core", '/repo' + "/pulser-simulation", "/verif"]
from symx.replay import replay
sys.exit(replay(check='checks.c09', kernel='atomic', shape={'device': 'virt_maxseq', 'prefix': 'p0', 'ops': ['add_g', 'declare_bad_target']},
                assignment={'d0': 1, 'a0': '4702873571728431/281474976710656', 'det0': 0}, label='atomic:declare_bad_target#1'))
