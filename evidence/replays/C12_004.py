#!/verif/.venv/bin/python
# Replay of a solver counterexample against the unmodified code (no shims).
# property=C12 kernel=coords label=k1:distance_error_has_cause
import sys
sys.path[:0] = ["/repo/pulser-core", "/repo/pulser-simulation", "/verif"]
from symx.replay import replay
sys.exit(replay(check='checks.c12', kernel='coords', shape={'dims': 2, 'n': 3, 'nsym': 1, 'mind': True, 'maxr': False, 'maxn': True},
                assignment={'min_atom_distance': '10380285371497399/1125899906842624', 'max_atom_num': 3, 'x0_0': '0/1', 'x0_1': '17/1'}, label='k1:distance_error_has_cause'))
