#!/verif/.venv/bin/python
# Replay of a solver counterexample against the unmodified code (no shims).
# property=C01 kernel=seq label=seq:requested_duration_within_limits
import sys
sys.path[:0] = ['/repo' + "/pulser-core", '/repo' + "/pulser-simulation", "/verif"]
from symx.replay import replay
sys.exit(replay(check='checks.c01', kernel='seq', shape={'device': 'virt', 'call': 'add_g', 'prior': False, 'rem': 0},
                assignment={'dur/k': 2501, 'amp': '1/1024', 'det': 2513274116}, label='seq:requested_duration_within_limits'))
