#!/verif/.venv/bin/python
# Replay of a solver counterexample against the unmodified code (no shims).
# property=C01 kernel=seqwf label=seqwf:scheduled_average_not_below_min_avg_amp
import sys
sys.path[:0] = ['/repo' + "/pulser-core", '/repo' + "/pulser-simulation", "/verif"]
from symx.replay import replay
sys.exit(replay(check='checks.c01', kernel='seqwf', shape={'wf': 'blackman', 'd': 16, 'minavg': 16},
                assignment={'min_avg_amp': '63/512', 'area': '1/512', 'det': 0}, label='seqwf:scheduled_average_not_below_min_avg_amp'))
