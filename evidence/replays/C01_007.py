#!/verif/.venv/bin/python
# Replay of a solver counterexample against the unmodified code (no shims).
# property=C01 kernel=seq label=seq:within_max_sequence_duration
import sys
sys.path[:0] = ['/repo' + "/pulser-core", '/repo' + "/pulser-simulation", "/verif"]
from symx.replay import replay
sys.exit(replay(check='checks.c01', kernel='seq', shape={'device': 'virt_maxseq', 'call': 'eom_drift', 'prior': True, 'rem': 0},
                assignment={'dur/k': 969, 'amp': '1/64', 'det': -20000000000, 'buf#1.start': 0, 'buf#1.end': 0, 'buf#2.start': 0, 'buf#2.end': 1, 'buf#5.start': 0, 'buf#5.end': 0, 'buf#6.start': 0, 'buf#6.end': 2}, label='seq:within_max_sequence_duration'))
