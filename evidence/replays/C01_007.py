#!/verif/.venv/bin/python
# Replay of a solver counterexample against the unmodified code (no shims).
# property=C01 kernel=seqwf label=seqwf:scheduled_only_lengthened
import sys
sys.path[:0] = ['/repo' + "/pulser-core", '/repo' + "/pulser-simulation", "/verif"]
from symx.replay import replay
sys.exit(replay(check='checks.c01', kernel='seqwf', shape={'wf': 'kaiser', 'd': 10, 'beta': 2.0},
                assignment={'area': '1/1024', 'det': 0}, label='seqwf:scheduled_only_lengthened'))
