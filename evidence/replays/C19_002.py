#!/verif/.venv/bin/python
# Replay of a solver counterexample against the unmodified code (no shims).
# property=C19 kernel=define_symid label=k2:qubit_sits_on_its_trap
import sys
sys.path[:0] = ['/repo' + "/pulser-core", '/repo' + "/pulser-simulation", "/verif"]
from symx.replay import replay
sys.exit(replay(check='checks.c19', kernel='define_symid', shape={'n': 3, 'dims': 2, 'fixed': [2, 0]},
                assignment={'p0_0': 25, 'p0_1': -499999965, 'p1_0': 10, 'p1_1': -499999985, 'p2_0': 5, 'p2_1': -499999965, 'trap_id': 1}, label='k2:qubit_sits_on_its_trap'))
