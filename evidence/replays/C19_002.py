#!/verif/.venv/bin/python
# Replay of a solver counterexample against the unmodified code (no shims).
# property=C19 kernel=mappable label=mappable:index_targets_declared_order
import sys
sys.path[:0] = ["/repo/pulser-core", "/repo/pulser-simulation", "/verif"]
from symx.replay import replay
sys.exit(replay(check='checks.c19', kernel='mappable', shape={'ids': ['q0', 'q1', 'q2', 'q3', 'q4', 'q5', 'q6', 'q7', 'q8', 'q9', 'q10', 'q11'], 'chosen': {'q0': 0, 'q1': 1, 'q2': 2, 'q3': 3, 'q4': 4, 'q5': 5, 'q6': 6, 'q7': 7, 'q8': 8, 'q9': 9, 'q10': 10, 'q11': 11}, 'index': 2},
                assignment={'amp': '1/1024'}, label='mappable:index_targets_declared_order'))
