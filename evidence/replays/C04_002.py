#!/verif/.venv/bin/python
# Replay of a solver counterexample against the unmodified code (no shims).
# property=C04 kernel=param label=abstract:param_decoded_builds
import sys
sys.path[:0] = ['/repo' + "/pulser-core", '/repo' + "/pulser-simulation", "/verif"]
from symx.replay import replay
sys.exit(replay(check='checks.c04', kernel='param', shape={'program': 'vars_strided', 'codec': 'abstract'},
                assignment={}, label='abstract:param_decoded_builds'))
