#!/verif/.venv/bin/python
# Replay of a solver counterexample against the unmodified code (no shims).
# property=C04 kernel=roundtrip label=abstract:identical_timeline
import sys
sys.path[:0] = ["/repo/pulser-core", "/repo/pulser-simulation", "/verif"]
from symx.replay import replay
sys.exit(replay(check='checks.c04', kernel='roundtrip', shape={'program': 'basic', 'codec': 'abstract'},
                assignment={'p0': 0, 'pp0': 1, 'p1': 0, 's0': 0, 'a0': '0/1', 'a1': '5/1', 'd0': 16, 'a2': '1/1024', 'd1': -150940, 'buf#1.start': 0, 'buf#1.end': 0, 'buf#2.start': 0, 'buf#2.end': 5, 'buf#3.start': 0, 'buf#3.end': 0, 'buf#4.start': 0, 'buf#4.end': 3, 'c0': '0/1', 'c1': '0/1', 'c2': '0/1', 'c3': '1/1024', 'buf#11.start': 0, 'buf#11.end': 3, 'buf#12.start': 0, 'buf#12.end': 0, 'area': '1/1024', 'd2': 9, 'buf#25.start': 0, 'buf#25.end': 7}, label='abstract:identical_timeline'))
