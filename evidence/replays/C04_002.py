#!/verif/.venv/bin/python
# Replay of a solver counterexample against the unmodified code (no shims).
# property=C04 kernel=roundtrip label=abstract:same_static_parts
import sys
sys.path[:0] = ['/repo' + "/pulser-core", '/repo' + "/pulser-simulation", "/verif"]
from symx.replay import replay
sys.exit(replay(check='checks.c04', kernel='roundtrip', shape={'program': 'eom_beams_rb', 'codec': 'abstract'},
                assignment={'buf#1.start': 0, 'buf#1.end': 5, 'buf#2.start': 0, 'buf#2.end': 6}, label='abstract:same_static_parts'))
