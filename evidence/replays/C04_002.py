#!/verif/.venv/bin/python
# Replay of a solver counterexample against the unmodified code (no shims).
# property=C04 kernel=param label=legacy:param_roundtrip_completes
import sys
sys.path[:0] = ['/repo' + "/pulser-core", '/repo' + "/pulser-simulation", "/verif"]
from symx.replay import replay
sys.exit(replay(check='checks.c04', kernel='param', shape={'program': 'vars_strided', 'codec': 'legacy'},
                assignment={}, label='legacy:param_roundtrip_completes'))
