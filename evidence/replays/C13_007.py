#!/verif/.venv/bin/python
# Replay of a solver counterexample against the unmodified code (no shims).
# property=C13 kernel=history label=typestate:D_mw2
import sys
sys.path[:0] = ['/repo' + "/pulser-core", '/repo' + "/pulser-simulation", "/verif"]
from symx.replay import replay
sys.exit(replay(check='checks.c13', kernel='history', shape={'device': 'mock_noreuse', 'k': 2, 'first': 32, 'prefix': ['D_mw']},
                assignment={'op2': 0}, label='typestate:D_mw2'))
