#!/verif/.venv/bin/python
# Replay of a solver counterexample against the unmodified code (no shims).
# property=C01 kernel=pinit label=pinit:accept_iff_nonneg_and_equal_len
import sys
sys.path[:0] = ['/repo' + "/pulser-core", '/repo' + "/pulser-simulation", "/verif"]
from symx.replay import replay
sys.exit(replay(check='checks.c01', kernel='pinit', shape={'amp': 'const', 'n': 3, 'dd': 0},
                assignment={'amp.v': '-2000000001/4000000004000000000', 'det.v': '0/1'}, label='pinit:accept_iff_nonneg_and_equal_len'))
