#!/verif/.venv/bin/python
# Replay of a solver counterexample against the unmodified code (no shims).
# property=C01 kernel=finite label=finite:accepted_pulse_has_finite_samples
import sys
sys.path[:0] = ['/repo' + "/pulser-core", '/repo' + "/pulser-simulation", "/verif"]
from symx.replay import replay
sys.exit(replay(check='checks.c01', kernel='finite', shape={'cls': 'ramp', 'dur': 1, 'as': 'amp'},
                assignment={'start': '0/1', 'stop': '0/1', 'max_det': '0/1', 'max_amp': '0/1'}, label='finite:accepted_pulse_has_finite_samples'))
