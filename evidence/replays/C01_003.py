#!/verif/.venv/bin/python
# Replay of a solver counterexample against the unmodified code (no shims).
# property=C01 kernel=vp label=vp:min_avg_amp
import sys
sys.path[:0] = ['/repo' + "/pulser-core", '/repo' + "/pulser-simulation", "/verif"]
from symx.replay import replay
sys.exit(replay(check='checks.c01', kernel='vp', shape={'amp': 'ramp', 'det': 'const', 'max_amp': True, 'max_det': True, 'minavg': True, 'grid': 7, 'n': 3},
                assignment={'max_amp': '1/256', 'max_det': 10, 'min_avg_amp': '3/1024', 'amp.start': '1/256', 'amp.stop': '0/1', 'det.v': 10}, label='vp:min_avg_amp'))
