#!/verif/.venv/bin/python
# Replay of a solver counterexample against the unmodified code (no shims).
# property=C03 kernel=two label=c03:no_delay_start
import sys
sys.path[:0] = ['/repo' + "/pulser-core", '/repo' + "/pulser-simulation", "/verif"]
from symx.replay import replay
sys.exit(replay(check='checks.c03', kernel='two', shape={'own': {'clock': 4, 'local': False, 'slots': [], 'mod': True, 'pj': 'derived', 'targets_a': ['q0'], 'targets_b': ['q1']}, 'other': {'clock': 1, 'local': False, 'slots': ['pulseA'], 'mod': True, 'pj': 'derived', 'targets_a': ['q0'], 'targets_b': ['q2']}, 'op': ['add_pulse', 'no-delay', 'B'], 'maxseq': False, 'nbarriers': 1},
                assignment={'own.min_duration': 3, 'own.tr': 1, 'other.min_duration': 1, 'other.tr': 1, 'other.s0.dur': 1, 'new.dur/k': 1, 'barrier0': 2, 'buf#1.start': 0, 'buf#1.end': 0, 'buf#2.start': 0, 'buf#2.end': 0, 'buf#5.start': 0, 'buf#5.end': 0, 'buf#6.start': 0, 'buf#6.end': 0}, label='c03:no_delay_start'))
