#!/verif/.venv/bin/python
# Replay of a solver counterexample against the unmodified code (no shims).
# property=C02 kernel=step label=c02:inv_clock
import sys
sys.path[:0] = ['/repo' + "/pulser-core", '/repo' + "/pulser-simulation", "/verif"]
from symx.replay import replay
sys.exit(replay(check='checks.c02', kernel='step', shape={'own': {'clock': 4, 'local': True, 'slots': [], 'mod': True, 'pj': 'derived', 'targets_a': ['q0'], 'targets_b': ['q1']}, 'op': ['add_target', 'diff'], 'maxseq': True, 'nbarriers': 1},
                assignment={'max_sequence_duration': 89, 'own.min_duration': 85, 'own.tr': 1, 'own.min_retarget': 85, 'own.fixed_retarget': 89}, label='c02:inv_clock'))
