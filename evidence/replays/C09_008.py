#!/verif/.venv/bin/python
# Replay of a solver counterexample against the unmodified code (no shims).
# property=C09 kernel=atomic label=atomic:eom_on#0
import sys
sys.path[:0] = ['/repo' + "/pulser-core", '/repo' + "/pulser-simulation", "/verif"]
from symx.replay import replay
sys.exit(replay(check='checks.c09', kernel='atomic', shape={'device': 'virt_maxseq', 'prefix': 'p1', 'ops': ['eom_on']},
                assignment={'pd0/k': 982, 'pd1/k': 11, 'buf#1.start': 0, 'buf#1.end': 0, 'buf#2.start': 0, 'buf#2.end': 1}, label='atomic:eom_on#0'))
