#!/verif/.venv/bin/python
# Replay of a solver counterexample against the unmodified code (no shims).
# property=C15 kernel=l1 label=c15:disable_waits_fall
import sys
sys.path[:0] = ['/repo' + "/pulser-core", '/repo' + "/pulser-simulation", "/verif"]
from symx.replay import replay
sys.exit(replay(check='checks.c15', kernel='l1', shape={'own': {'clock': 1, 'local': False, 'slots': ['ddelayA'], 'mod': True, 'pj': 'derived', 'det_off': -1.5, 'eom': {'custom_buffer': False, 'blocks': [(0, None)]}}, 'op': ['disable_eom'], 'maxseq': True, 'nbarriers': 1},
                assignment={'max_sequence_duration': 2, 'own.min_duration': 1, 'own.tr': 1, 'own.eom_tr': 1, 'own.s0.dur': 2, 'buf#1.start': 0, 'buf#1.end': 0, 'buf#2.start': 0, 'buf#2.end': 0}, label='c15:disable_waits_fall'))
