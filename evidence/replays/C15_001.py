#!/verif/.venv/bin/python
# Replay of a solver counterexample against the unmodified code (no shims).
# property=C15 kernel=l1 label=c15:buffer_length
import sys
sys.path[:0] = ['/repo' + "/pulser-core", '/repo' + "/pulser-simulation", "/verif"]
from symx.replay import replay
sys.exit(replay(check='checks.c15', kernel='l1', shape={'own': {'clock': 1, 'local': False, 'slots': ['pulseA'], 'mod': True, 'pj': 'derived', 'det_off': 0.0, 'eom': {'custom_buffer': True, 'blocks': []}}, 'op': ['enable_eom', 0.0], 'maxseq': True},
                assignment={'max_sequence_duration': 10, 'own.min_duration': 3, 'own.tr': 2, 'own.eom_buffer': 2, 'own.eom_tr': 1, 'own.s0.dur': 3, 'buf#1.start': 0, 'buf#1.end': 0, 'buf#2.start': 0, 'buf#2.end': 0, 'buf#3.start': 0, 'buf#3.end': 0, 'buf#4.start': 0, 'buf#4.end': 0}, label='c15:buffer_length'))
