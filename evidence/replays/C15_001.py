#!/verif/.venv/bin/python
# Replay of a solver counterexample against the unmodified code (no shims).
# property=C15 kernel=drift label=k4:modify_compensates_drift
import sys
sys.path[:0] = ['/repo' + "/pulser-core", '/repo' + "/pulser-simulation", "/verif"]
from symx.replay import replay
sys.exit(replay(check='checks.c15', kernel='drift', shape={'cfg': {'lim': 'R', 'ctrl': ['B']}, 'program': [['enable', 2.0, 0.0, -1.0], ['modify', 1.0, 0.0, 3.0], ['eom_pulse', 0.0], ['disable']], 'custom_buffer': None, 'kmax': 12},
                assignment={'d2/k': 2, 'buf#1.start': 0, 'buf#1.end': 1, 'buf#2.start': 0, 'buf#2.end': 1}, label='k4:modify_compensates_drift'))
