#!/verif/.venv/bin/python
# Replay of a solver counterexample against the unmodified code (no shims).
# property=C15 kernel=seq label=k3:plain_idle_only_if_off_detuning_zero
import sys
sys.path[:0] = ['/repo' + "/pulser-core", '/repo' + "/pulser-simulation", "/verif"]
from symx.replay import replay
sys.exit(replay(check='checks.c15', kernel='seq', shape={'cfg': {'lim': 'R', 'ctrl': ['B']}, 'program': [['enable', 2.0, 1.0, -1.0], ['eom_pulse', 0.0], ['delay'], ['modify', 1.0, 0.0, 0.0], ['eom_pulse', 0.5], ['disable']], 'custom_buffer': None},
                assignment={'d1/k': 2, 'd2/k': 2, 'd4/k': 2, 'buf#1.start': 0, 'buf#1.end': 6, 'buf#2.start': 0, 'buf#2.end': 7, 'buf#3.start': 0, 'buf#3.end': 0, 'buf#4.start': 0, 'buf#4.end': 1}, label='k3:plain_idle_only_if_off_detuning_zero'))
