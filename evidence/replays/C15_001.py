#!/verif/.venv/bin/python
# Replay of a solver counterexample against the unmodified code (no shims).
# property=C15 kernel=drift label=k4:pulse_phase_compensates_drift
import sys
sys.path[:0] = ["/repo/pulser-core", "/repo/pulser-simulation", "/verif"]
from symx.replay import replay
sys.exit(replay(check='checks.c15', kernel='drift', shape={'cfg': {'lim': 'R', 'ctrl': ['B']}, 'program': [['enable', 1.0, 0.0, 0.0], ['eom_pulse', 0.0], ['delay'], ['eom_pulse', 1.0], ['disable']], 'custom_buffer': 40, 'kmax': 12},
                assignment={'d1/k': 2, 'd2/k': 2, 'd3/k': 2, 'buf#1.start': 0, 'buf#1.end': 3, 'buf#2.start': 0, 'buf#2.end': 3}, label='k4:pulse_phase_compensates_drift'))
