#!/verif/.venv/bin/python
# Replay of a solver counterexample against the unmodified code (no shims).
# property=C15 kernel=drift label=k4:modify_compensates_drift
import sys
sys.path[:0] = ["/repo/pulser-core", "/repo/pulser-simulation", "/verif"]
from symx.replay import replay
sys.exit(replay(check='checks.c15', kernel='drift', shape={'cfg': {'lim': 'R', 'ctrl': ['B', 'R']}, 'program': [['add'], ['enable', 1.0, 0.0, 0.0], ['delay'], ['modify', 2.0, 3.0, -5.0], ['delay'], ['modify', 1.0, 0.0, 0.0], ['eom_pulse', 0.5], ['disable']], 'custom_buffer': 40, 'kmax': 12},
                assignment={'d0/k': 2, 'buf#1.start': 0, 'buf#1.end': 0, 'buf#2.start': 0, 'buf#2.end': 1, 'd2/k': 2, 'd4/k': 2, 'd6/k': 2, 'buf#7.start': 0, 'buf#7.end': 9, 'buf#8.start': 0, 'buf#8.end': 10}, label='k4:modify_compensates_drift'))
