#!/verif/.venv/bin/python
# Replay of a solver counterexample against the unmodified code (no shims).
# property=C09 kernel=atomic label=atomic:add_g#1
import sys
sys.path[:0] = ['/repo' + "/pulser-core", '/repo' + "/pulser-simulation", "/verif"]
from symx.replay import replay
sys.exit(replay(check='checks.c09', kernel='atomic', shape={'device': 'virt_maxseq', 'prefix': 'pslm', 'ops': ['declare_again', 'add_g']},
                assignment={'d1': 7, 'a1': '919464091092387/35184372088832', 'det1': 15}, label='atomic:add_g#1'))
