#!/verif/.venv/bin/python
# Replay of a solver counterexample against the unmodified code (no shims).
# property=C08 kernel=build label=build:reproducible
import sys
sys.path[:0] = ["/repo/pulser-core", "/repo/pulser-simulation", "/verif"]
from symx.replay import replay
sys.exit(replay(check='checks.c08', kernel='build', shape={'program': 'vars_basic'},
                assignment={'v_a0': '15064893514883941702281405957322965721919422853966955646043/5021631171495461517618412963517277902419625678466755592192', 'v_b0': '1/8', 'v_n0/k': 10, 'w_a0': '15064893464667629987326789730484999565915663205760663129179/5021681387807176472237696995301495309633885063307438587904', 'w_b0': '37778934885271710746141/302228432589108257103360', 'w_n0/k': 10}, label='build:reproducible'))
