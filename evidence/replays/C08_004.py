#!/verif/.venv/bin/python
# Replay of a solver counterexample against the unmodified code (no shims).
# property=C08 kernel=build label=build:same_static_parts
import sys
sys.path[:0] = ['/repo' + "/pulser-core", '/repo' + "/pulser-simulation", "/verif"]
from symx.replay import replay
sys.exit(replay(check='checks.c08', kernel='build', shape={'program': 'vars_items'},
                assignment={'v_arr0': '2/1', 'v_arr1': '1/8', 'v_arr2': '1/1', 'w_arr0': '2/1', 'w_arr1': '1/8', 'w_arr2': '4/1'}, label='build:same_static_parts'))
