#!/verif/.venv/bin/python
# Replay of a solver counterexample against the unmodified code (no shims).
# property=C10 kernel=real_prev label=c10:phase_jump_gap_real_pulses
import sys
sys.path[:0] = ['/repo' + "/pulser-core", '/repo' + "/pulser-simulation", "/verif"]
from symx.replay import replay
sys.exit(replay(check='checks.c10', kernel='real_prev', shape={'prev': 'ramp00', 'det': 'const', 'proto1': 'min-delay', 'd1': 12},
                assignment={'d0/k': 2, 'd2/k': 2, 'det1': '0/1', 'buf#1.start': 0, 'buf#1.end': 0, 'buf#2.start': 0, 'buf#2.end': 1, 'buf#5.start': 0, 'buf#5.end': 2, 'buf#6.start': 0, 'buf#6.end': 0}, label='c10:phase_jump_gap_real_pulses'))
