#!/verif/.venv/bin/python
# Replay of a solver counterexample against the unmodified code (no shims).
# property=C10 kernel=eom label=c10:phase_jump_gap
import sys
sys.path[:0] = ['/repo' + "/pulser-core", '/repo' + "/pulser-simulation", "/verif"]
from symx.replay import replay
sys.exit(replay(check='checks.c10', kernel='eom', shape={'own': {'clock': 1, 'local': False, 'slots': ['pulseA', 'delay'], 'mod': True, 'pj': 'custom', 'det_off': 0.0, 'eom': {'custom_buffer': False, 'blocks': [(0, None)]}}, 'op': ['add_pulse', 'min-delay', 'B'], 'maxseq': False, 'nbarriers': 1},
                assignment={'own.min_duration': 2, 'own.tr': 2, 'own.pjt': 1, 'own.eom_tr': 2, 'own.s0.dur': 2, 'own.s1.dur': 5, 'new.dur': 2, 'barrier0': 8, 'buf#1.start': 0, 'buf#1.end': 0, 'buf#2.start': 0, 'buf#2.end': 0, 'buf#9.start': 0, 'buf#9.end': 2, 'buf#10.start': 0, 'buf#10.end': 0}, label='c10:phase_jump_gap'))
