#!/verif/.venv/bin/python
# Replay of a solver counterexample against the unmodified code (no shims).
# property=C10 kernel=step label=c10:phase_jump_gap
import sys
sys.path[:0] = ['/repo' + "/pulser-core", '/repo' + "/pulser-simulation", "/verif"]
from symx.replay import replay
sys.exit(replay(check='checks.c10', kernel='step', shape={'own': {'clock': 4, 'local': True, 'slots': ['pulseA', 'target'], 'mod': False, 'pj': 'custom', 'targets_a': ['q0'], 'targets_b': ['q1']}, 'op': ['add_pulse', 'min-delay', 'B'], 'maxseq': False, 'nbarriers': 1},
                assignment={'own.min_duration': 1, 'own.pjt': 77, 'own.min_retarget': 0, 'own.fixed_retarget': 1, 'own.s0.dur/k': 1, 'own.s1.dur/k': 1, 'new.dur/k': 1, 'barrier0': 77}, label='c10:phase_jump_gap'))
