#!/verif/.venv/bin/python
# Replay of a solver counterexample against the unmodified code (no shims).
# property=C10 kernel=eom_drift label=c10:eom_phase_jump_gap
import sys
sys.path[:0] = ["/repo/pulser-core", "/repo/pulser-simulation", "/verif"]
from symx.replay import replay
sys.exit(replay(check='checks.c10', kernel='eom_drift', shape={'cfg': {'lim': 'R', 'ctrl': ['B']}, 'program': [['enable', 2.0, 0.0, -1.0], ['eom_pulse', 0.5], ['delay'], ['eom_pulse', 0.5], ['eom_pulse', 0.5], ['delay'], ['delay'], ['eom_pulse', 0.5]], 'custom_buffer': None, 'kmax': 12},
                assignment={'d1/k': 2, 'd2/k': 2, 'd3/k': 2, 'buf#1.start': 0, 'buf#1.end': 0, 'buf#2.start': 0, 'buf#2.end': 1, 'd4/k': 2, 'buf#3.start': 0, 'buf#3.end': 0, 'buf#4.start': 0, 'buf#4.end': 0, 'd5/k': 2, 'd6/k': 2, 'd7/k': 2, 'buf#5.start': 0, 'buf#5.end': 0, 'buf#6.start': 0, 'buf#6.end': 0}, label='c10:eom_phase_jump_gap'))
