#!/verif/.venv/bin/python
# Replay of a solver counterexample against the unmodified code (no shims).
# property=C09 kernel=atomic label=atomic:mag_zero#1
import sys
sys.path[:0] = ['/repo' + "/pulser-core", '/repo' + "/pulser-simulation", "/verif"]
from symx.replay import replay
sys.exit(replay(check='checks.c09', kernel='atomic', shape={'device': 'mock', 'prefix': 'pe', 'ops': ['declare_used', 'mag_zero']},
                assignment={}, label='atomic:mag_zero#1'))
