#!/verif/.venv/bin/python
# Replay of a solver counterexample against the unmodified code (no shims).
# property=C09 kernel=l1 label=c09:raise_unchanged
import sys
sys.path[:0] = ['/repo' + "/pulser-core", '/repo' + "/pulser-simulation", "/verif"]
from symx.replay import replay
sys.exit(replay(check='checks.c09', kernel='l1', shape={'own': {'clock': 1, 'local': True, 'slots': ['pulseA'], 'mod': True, 'pj': 'custom', 'targets_a': ['q0'], 'targets_b': ['q1']}, 'op': ['add_target', 'diff'], 'maxseq': True, 'nbarriers': 1},
                assignment={'max_sequence_duration': 4, 'own.min_duration': 1, 'own.tr': 1, 'own.pjt': 0, 'own.min_retarget': 5, 'own.fixed_retarget': 1, 'own.s0.dur': 1, 'buf#1.start': 0, 'buf#1.end': 0, 'buf#2.start': 0, 'buf#2.end': 1}, label='c09:raise_unchanged'))
