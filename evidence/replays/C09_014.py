#!/verif/.venv/bin/python
# Replay of a solver counterexample against the unmodified code (no shims).
# property=C09 kernel=readonly label=readonly:sample_mod
import sys
sys.path[:0] = ['/repo' + "/pulser-core", '/repo' + "/pulser-simulation", "/verif"]
from symx.replay import replay
sys.exit(replay(check='checks.c09', kernel='readonly', shape={'device': 'virt_maxseq', 'what': 'sample_mod', 'eom': True},
                assignment={}, label='readonly:sample_mod'))
