#!/verif/.venv/bin/python
# Replay of a solver counterexample against the unmodified code (no shims).
# property=C17 kernel=noise label=k1:roundtrip_field:runs
import sys
sys.path[:0] = ['/repo' + "/pulser-core", '/repo' + "/pulser-simulation", "/verif"]
from symx.replay import replay
sys.exit(replay(check='checks.c17', kernel='noise', shape={'params': ['state_prep_error', 'relaxation_rate'], 'runs': True},
                assignment={'state_prep_error': '0/1', 'relaxation_rate': '1/2'}, label='k1:roundtrip_field:runs'))
