#!/verif/.venv/bin/python
# Replay of a solver counterexample against the unmodified code (no shims).
# property=C19 kernel=wmap label=k3:register_map_gives_each_qubit_its_weight
import sys
sys.path[:0] = ['/repo' + "/pulser-core", '/repo' + "/pulser-simulation", "/verif"]
from symx.replay import replay
sys.exit(replay(check='checks.c19', kernel='wmap', shape={'n': 2, 'perm': [1, 0]},
                assignment={'p0_0': -14, 'p0_1': -499725103, 'p1_0': -20, 'p1_1': -499745114, 'w0': '0/1', 'w1': '1/1024', 'far_0': 1000000000, 'far_1': 1000007378}, label='k3:register_map_gives_each_qubit_its_weight'))
