#!/verif/.venv/bin/python
# Replay of a solver counterexample against the unmodified code (no shims).
# property=C19 kernel=wmap label=k3:unrounded_qubit_gets_weight_of_its_trap
import sys
sys.path[:0] = ['/repo' + "/pulser-core", '/repo' + "/pulser-simulation", "/verif"]
from symx.replay import replay
sys.exit(replay(check='checks.c19', kernel='wmap', shape={'n': 2, 'perm': [1, 0]},
                assignment={'p0_0': 10900016, 'p0_1': 1859949, 'p1_0': 10900009, 'p1_1': 1879964, 'w0': '0/1', 'w1': '1/1024', 'far_0': 1000000000, 'far_1': 1000027139}, label='k3:unrounded_qubit_gets_weight_of_its_trap'))
