#!/verif/.venv/bin/python
# Replay of a solver counterexample against the unmodified code (no shims).
# property=C19 kernel=define label=k2:qubit_sits_on_its_trap
import sys
sys.path[:0] = ['/repo' + "/pulser-core", '/repo' + "/pulser-simulation", "/verif"]
from symx.replay import replay
sys.exit(replay(check='checks.c19', kernel='define', shape={'n': 2, 'dims': 2, 'ids': [1, 0]},
                assignment={'p0_0': 20, 'p0_1': -5, 'p1_0': -5, 'p1_1': 15}, label='k2:qubit_sits_on_its_trap'))
