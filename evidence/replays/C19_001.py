#!/verif/.venv/bin/python
# Replay of a solver counterexample against the unmodified code (no shims).
# property=C19 kernel=order label=k1:eq_and_hash_order_independent
import sys
sys.path[:0] = ['/repo' + "/pulser-core", '/repo' + "/pulser-simulation", "/verif"]
from symx.replay import replay
sys.exit(replay(check='checks.c19', kernel='order', shape={'n': 2, 'dims': 2, 'perm': [1, 0]},
                assignment={'p0_0': 15, 'p0_1': -500000000, 'p1_0': -5, 'p1_1': -500000000}, label='k1:eq_and_hash_order_independent'))
