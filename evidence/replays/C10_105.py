#!/verif/.venv/bin/python
# Replay of a solver counterexample against the unmodified code (no shims).
# property=C10 kernel=step label=c10:phase_jump_gap
import sys
sys.path[:0] = ["/repo/pulser-core", "/repo/pulser-simulation", "/verif"]
from symx.replay import replay
sys.exit(replay(check='checks.c10', kernel='step', shape={'own': {'clock': 4, 'local': False, 'slots': ['pulseA', 'delay'], 'mod': True, 'pj': 'derived', 'targets_a': ['q0'], 'targets_b': ['q1']}, 'op': ['add_pulse', 'min-delay', 'B'], 'maxseq': True, 'nbarriers': 1},
                assignment={'max_sequence_duration': 16, 'own.min_duration': 2, 'own.tr': 3, 'own.s0.dur/k': 1, 'own.s1.dur/k': 1, 'new.dur/k': 1, 'barrier0': 9, 'buf#1.start': 0, 'buf#1.end': 0, 'buf#2.start': 0, 'buf#2.end': 0, 'buf#5.start': 0, 'buf#5.end': 0, 'buf#6.start': 0, 'buf#6.end': 1}, label='c10:phase_jump_gap'))
