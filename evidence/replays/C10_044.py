#!/verif/.venv/bin/python
# Replay of a solver counterexample against the unmodified code (no shims).
# property=C10 kernel=step label=c10:phase_jump_gap
import sys
sys.path[:0] = ["/repo/pulser-core", "/repo/pulser-simulation", "/verif"]
from symx.replay import replay
sys.exit(replay(check='checks.c10', kernel='step', shape={'own': {'clock': 1, 'local': True, 'slots': ['pulseB'], 'mod': True, 'pj': 'derived', 'targets_a': ['q0'], 'targets_b': ['q1']}, 'op': ['add_pulse', 'min-delay', 'A'], 'maxseq': True, 'nbarriers': 1},
                assignment={'max_sequence_duration': 4, 'own.min_duration': 1, 'own.tr': 1, 'own.min_retarget': 0, 'own.fixed_retarget': 0, 'own.s0.dur': 1, 'new.dur': 1, 'barrier0': 3, 'buf#1.start': 0, 'buf#1.end': 0, 'buf#2.start': 0, 'buf#2.end': 0, 'buf#5.start': 0, 'buf#5.end': 0, 'buf#6.start': 0, 'buf#6.end': 0}, label='c10:phase_jump_gap'))
