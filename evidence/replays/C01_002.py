#!/verif/.venv/bin/python
# Replay of a solver counterexample against the unmodified code (no shims).
# property=C01 kernel=vp label=vp:inside_is_accepted
import sys
sys.path[:0] = ['/repo' + "/pulser-core", '/repo' + "/pulser-simulation", "/verif"]
from symx.replay import replay
sys.exit(replay(check='checks.c01', kernel='vp', shape={'amp': 'const', 'det': 'const', 'max_amp': False, 'max_det': True, 'minavg': True, 'grid': 7, 'n': 3},
                assignment={'max_det': 282736, 'min_avg_amp': '0/1', 'dur': 1, 'amp.v': '0/1', 'det.v': -282735}, label='vp:inside_is_accepted'))
