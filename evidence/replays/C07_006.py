#!/verif/.venv/bin/python
# Replay of a solver counterexample against the unmodified code (no shims).
# property=C07 kernel=seq label=k2:not_before_last_shift_ref
import sys
sys.path[:0] = ["/repo/pulser-core", "/repo/pulser-simulation", "/verif"]
from symx.replay import replay
sys.exit(replay(check='checks.c07', kernel='seq', shape={'device': 'mock', 'channels': [('a', 'raman_global', None), ('b', 'raman_local', 'q1'), ('r', 'rydberg_global', None)], 'program': [['add', 'b', 'min-delay', 32, False], ['shift', ['q0', 'q2'], 'digital'], ['shift', ['q1'], 'digital'], ['add', 'a', 'no-delay', 16, True]]},
                assignment={'ph0': -1440, 'phi1': 1, 'phi2': 721, 'ph3': -1440, 'post3': 1}, label='k2:not_before_last_shift_ref'))
