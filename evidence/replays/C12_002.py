#!/verif/.venv/bin/python
# Replay of a solver counterexample against the unmodified code (no shims).
# property=C12 kernel=autolayout label=k4:automatic_layout_register_is_accepted
import sys
sys.path[:0] = ['/repo' + "/pulser-core", '/repo' + "/pulser-simulation", "/verif"]
from symx.replay import replay
sys.exit(replay(check='checks.c12', kernel='autolayout', shape={'opt': False, 'n': 4, 'maxn': 3},
                assignment={'max_layout_filling': '1/1'}, label='k4:automatic_layout_register_is_accepted'))
