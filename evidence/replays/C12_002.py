#!/verif/.venv/bin/python
# Replay of a solver counterexample against the unmodified code (no shims).
# property=C12 kernel=layout label=k2:layout_accept_iff_trap_count_fits
import sys
sys.path[:0] = ['/repo' + "/pulser-core", '/repo' + "/pulser-simulation", "/verif"]
from symx.replay import replay
sys.exit(replay(check='checks.c12', kernel='layout', shape={'ntraps': 9, 'nq': 4, 'maxt': False},
                assignment={'max_layout_filling': '57/128', 'min_layout_traps': 10, 'max_atom_num': 1}, label='k2:layout_accept_iff_trap_count_fits'))
