#!/verif/.venv/bin/python
# Replay of a solver counterexample against the unmodified code (no shims).
# property=C09 kernel=atomic label=atomic:declare_bad_target#0
import sys
sys.path[:0] = ['/repo' + "/pulser-core", '/repo' + "/pulser-simulation", "/verif"]
from symx.replay import replay
sys.exit(replay(check='checks.c09', kernel='atomic', shape={'device': 'virt_maxseq', 'prefix': 'p0', 'ops': ['declare_bad_target']},
                assignment={}, label='atomic:declare_bad_target#0'))
