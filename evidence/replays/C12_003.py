#!/verif/.venv/bin/python
# Replay of a solver counterexample against the unmodified code (no shims).
# property=C12 kernel=layout label=k2:layout_accept_iff_trap_count_fits
import sys
sys.path[:0] = ['/repo' + "/pulser-core", '/repo' + "/pulser-simulation", "/verif"]
from symx.replay import replay
sys.exit(replay(check='checks.c12', kernel='layout', shape={'ntraps': 4, 'nq': 2, 'maxt': False},
                assignment={'max_layout_filling': '1/2', 'min_layout_traps': 5, 'max_atom_num': 1}, label='k2:layout_accept_iff_trap_count_fits'))
