#!/verif/.venv/bin/python
# Replay of a solver counterexample against the unmodified code (no shims).
# property=C13 kernel=history label=typestate:SLM
import sys
sys.path[:0] = ['/repo' + "/pulser-core", '/repo' + "/pulser-simulation", "/verif"]
from symx.replay import replay
sys.exit(replay(check='checks.c13', kernel='history', shape={'device': 'mock', 'k': 2, 'first': 1, 'prefix': ['D_g', 'ADD_g']},
                assignment={'op3': 6}, label='typestate:SLM'))
