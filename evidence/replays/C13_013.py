#!/verif/.venv/bin/python
# Replay of a solver counterexample against the unmodified code (no shims).
# property=C13 kernel=history label=typestate:EOM_on2
import sys
sys.path[:0] = ['/repo' + "/pulser-core", '/repo' + "/pulser-simulation", "/verif"]
from symx.replay import replay
sys.exit(replay(check='checks.c13', kernel='history', shape={'device': 'virt_reuse', 'k': 1, 'first': 25, 'prefix': ['D_g', 'D_g2', 'VAR', 'EOM_on2', 'EOM_on', 'EOM_off2']},
                assignment={}, label='typestate:EOM_on2'))
