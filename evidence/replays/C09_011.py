#!/verif/.venv/bin/python
# Replay of a solver counterexample against the unmodified code (no shims).
# property=C09 kernel=atomic label=atomic:eom_off#1
import sys
sys.path[:0] = ['/repo' + "/pulser-core", '/repo' + "/pulser-simulation", "/verif"]
from symx.replay import replay
sys.exit(replay(check='checks.c09', kernel='atomic', shape={'device': 'virt_maxseq', 'prefix': 'p1', 'ops': ['eom_on', 'eom_off']},
                assignment={'pd0/k': 970, 'pd1/k': 2, 'buf#1.start': 0, 'buf#1.end': 3, 'buf#2.start': 0, 'buf#2.end': 0, 'buf#9.start': 0, 'buf#9.end': 20, 'buf#10.start': 0, 'buf#10.end': 21}, label='atomic:eom_off#1'))
