#!/verif/.venv/bin/python
# Replay of a solver counterexample against the unmodified code (no shims).
# property=C15 kernel=eomcfg label=k1:switching_beams_match_result
import sys
sys.path[:0] = ['/repo' + "/pulser-core", '/repo' + "/pulser-simulation", "/verif"]
from symx.replay import replay
sys.exit(replay(check='checks.c15', kernel='eomcfg', shape={'cfg': {'lim': 'R', 'ctrl': ['R', 'B'], 'cb': 2.0, 'cr': 0.5}},
                assignment={'amp_on': '1/1024', 'detuning_on': '1/1', 'optimal_detuning_off': '0/1'}, label='k1:switching_beams_match_result'))
