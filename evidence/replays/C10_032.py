#!/verif/.venv/bin/python
# Replay of a solver counterexample against the unmodified code (no shims).
# property=C10 kernel=step label=c10:phase_jump_gap
import sys
sys.path[:0] = ["/repo/pulser-core", "/repo/pulser-simulation", "/verif"]
from symx.replay import replay
sys.exit(replay(check='checks.c10', kernel='step', shape={'own': {'clock': 1, 'local': False, 'slots': ['pulseB', 'delay'], 'mod': True, 'pj': 'derived', 'targets_a': ['q0'], 'targets_b': ['q1']}, 'op': ['add_pulse', 'wait-for-all', 'A'], 'maxseq': True, 'nbarriers': 1},
                assignment={'max_sequence_duration': 13, 'own.min_duration': 3, 'own.tr': 3, 'own.s0.dur': 3, 'own.s1.dur': 4, 'new.dur': 3, 'barrier0': 8, 'buf#1.start': 0, 'buf#1.end': 0, 'buf#2.start': 0, 'buf#2.end': 0, 'buf#5.start': 0, 'buf#5.end': 0, 'buf#6.start': 0, 'buf#6.end': 0}, label='c10:phase_jump_gap'))
