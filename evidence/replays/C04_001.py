#!/verif/.venv/bin/python
# Replay of a solver counterexample against the unmodified code (no shims).
# property=C04 kernel=roundtrip label=legacy:roundtrip_completes
import sys
sys.path[:0] = ['/repo' + "/pulser-core", '/repo' + "/pulser-simulation", "/verif"]
from symx.replay import replay
sys.exit(replay(check='checks.c04', kernel='roundtrip', shape={'program': 'noise_device', 'codec': 'legacy'},
                assignment={'a0': '1/2', 'd0': 0}, label='legacy:roundtrip_completes'))
