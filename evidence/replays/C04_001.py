#!/verif/.venv/bin/python
# Replay of a solver counterexample against the unmodified code (no shims).
# property=C04 kernel=roundtrip label=abstract:roundtrip_completes
import sys
sys.path[:0] = ['/repo' + "/pulser-core", '/repo' + "/pulser-simulation", "/verif"]
from symx.replay import replay
sys.exit(replay(check='checks.c04', kernel='roundtrip', shape={'program': 'global_init_target', 'codec': 'abstract'},
                assignment={'a0': '1/1024'}, label='abstract:roundtrip_completes'))
