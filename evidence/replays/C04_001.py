#!/verif/.venv/bin/python
# Replay of a solver counterexample against the unmodified code (no shims).
# property=C04 kernel=roundtrip label=abstract:roundtrip_completes
import sys
sys.path[:0] = ['/repo' + "/pulser-core", '/repo' + "/pulser-simulation", "/verif"]
from symx.replay import replay
sys.exit(replay(check='checks.c04', kernel='roundtrip', shape={'program': 'eom_positional', 'codec': 'abstract'},
                assignment={'buf#1.start': 0, 'buf#1.end': 0, 'buf#2.start': 0, 'buf#2.end': 1, 'buf#5.start': 0, 'buf#5.end': 0, 'buf#6.start': 0, 'buf#6.end': 1, 'buf#7.start': 0, 'buf#7.end': 0, 'buf#8.start': 0, 'buf#8.end': 5, 'buf#9.start': 0, 'buf#9.end': 2, 'buf#10.start': 0, 'buf#10.end': 3, 'buf#11.start': 0, 'buf#11.end': 4, 'buf#12.start': 0, 'buf#12.end': 5}, label='abstract:roundtrip_completes'))
