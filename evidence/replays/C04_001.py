#!/verif/.venv/bin/python
# Replay of a solver counterexample against the unmodified code (no shims).
# property=C04 kernel=param label=abstract:built_roundtrip_completes
import sys
sys.path[:0] = ['/repo' + "/pulser-core", '/repo' + "/pulser-simulation", "/verif"]
from symx.replay import replay
sys.exit(replay(check='checks.c04', kernel='param', shape={'program': 'vars_items', 'codec': 'abstract'},
                assignment={'v_arr0': '1/8', 'v_arr1': '1/8', 'v_arr2': '3071/1024'}, label='abstract:built_roundtrip_completes'))
