#!/verif/.venv/bin/python
# Replay of a solver counterexample against the unmodified code (no shims).
# property=C04 kernel=roundtrip label=abstract:identical_timeline
import sys
sys.path[:0] = ["/repo/pulser-core", "/repo/pulser-simulation", "/verif"]
from symx.replay import replay
sys.exit(replay(check='checks.c04', kernel='roundtrip', shape={'program': 'at_rest_a', 'codec': 'abstract'},
                assignment={'a0': '1/1024', 'buf#1.start': 0, 'buf#1.end': 16, 'buf#2.start': 0, 'buf#2.end': 17, 'buf#5.start': 0, 'buf#5.end': 0, 'buf#6.start': 0, 'buf#6.end': 1, 'buf#7.start': 0, 'buf#7.end': 4, 'buf#8.start': 0, 'buf#8.end': 4}, label='abstract:identical_timeline'))
