#!/verif/.venv/bin/python
# Replay of a solver counterexample against the unmodified code (no shims).
# property=C18 kernel=switch label=strict:identical_timeline
import sys
sys.path[:0] = ['/repo' + "/pulser-core", '/repo' + "/pulser-simulation", "/verif"]
from symx.replay import replay
sys.exit(replay(check='checks.c18', kernel='switch', shape={'program': 'retarget', 'device': 'virt_nomod', 'sym': [], 'concrete': [['ryd_loc', 'mod_bandwidth', 10.0]], 'strict': True},
                assignment={'buf#1.start': 0, 'buf#1.end': 20, 'buf#2.start': 0, 'buf#2.end': 21}, label='strict:identical_timeline'))
