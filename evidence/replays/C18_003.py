#!/verif/.venv/bin/python
# Replay of a solver counterexample against the unmodified code (no shims).
# property=C18 kernel=switch label=strict:identical_timeline
import sys
sys.path[:0] = ['/repo' + "/pulser-core", '/repo' + "/pulser-simulation", "/verif"]
from symx.replay import replay
sys.exit(replay(check='checks.c18', kernel='switch', shape={'program': 'eom_long_idle', 'sym': [], 'concrete': [['ryd_glob', 'eom.custom_buffer_time', 48]], 'strict': True, 'param': True},
                assignment={}, label='strict:identical_timeline'))
