#!/verif/.venv/bin/python
# Replay of a solver counterexample against the unmodified code (no shims).
# property=C10 kernel=step label=c10:retarget_fixed
import sys
sys.path[:0] = ['/repo' + "/pulser-core", '/repo' + "/pulser-simulation", "/verif"]
from symx.replay import replay
sys.exit(replay(check='checks.c10', kernel='step', shape={'own': {'clock': 4, 'local': True, 'slots': [], 'mod': True, 'pj': 'custom', 'maxd': True, 'targets_a': ['q0'], 'targets_b': ['q1']}, 'op': ['add_target', 'diff'], 'maxseq': False, 'nbarriers': 1},
                assignment={'own.min_duration': 3, 'own.max_duration': 3, 'own.tr': 2, 'own.pjt': 0, 'own.min_retarget': 5, 'own.fixed_retarget': 6}, label='c10:retarget_fixed'))
