#!/verif/.venv/bin/python
# Replay of a solver counterexample against the unmodified code (no shims).
# property=C10 kernel=step label=c10:retarget_minimal
import sys
sys.path[:0] = ["/repo/pulser-core", "/repo/pulser-simulation", "/verif"]
from symx.replay import replay
sys.exit(replay(check='checks.c10', kernel='step', shape={'own': {'clock': 1, 'local': True, 'slots': [], 'mod': True, 'pj': 'derived', 'targets_a': ['q0'], 'targets_b': ['q1']}, 'op': ['add_target', 'diff'], 'maxseq': True, 'nbarriers': 1},
                assignment={'max_sequence_duration': 2, 'own.min_duration': 2, 'own.tr': 1, 'own.min_retarget': 1, 'own.fixed_retarget': 3}, label='c10:retarget_minimal'))
