#!/verif/.venv/bin/python
# Replay of a solver counterexample against the unmodified code (no shims).
# property=C10 kernel=step label=c10:retarget_after_fall
import sys
sys.path[:0] = ["/repo/pulser-core", "/repo/pulser-simulation", "/verif"]
from symx.replay import replay
sys.exit(replay(check='checks.c10', kernel='step', shape={'own': {'clock': 4, 'local': True, 'slots': ['pulseB'], 'mod': True, 'pj': 'derived', 'targets_a': ['q0'], 'targets_b': ['q1']}, 'op': ['add_target', 'diff'], 'maxseq': True, 'nbarriers': 1},
                assignment={'max_sequence_duration': 8, 'own.min_duration': 3, 'own.tr': 1, 'own.min_retarget': 0, 'own.fixed_retarget': 2, 'own.s0.dur/k': 1, 'buf#1.start': 0, 'buf#1.end': 0, 'buf#2.start': 0, 'buf#2.end': 1}, label='c10:retarget_after_fall'))
