#!/verif/.venv/bin/python
# Replay of a solver counterexample against the unmodified code (no shims).
# property=C05 kernel=ham label=ham:offdiag
import sys
sys.path[:0] = ['/repo' + "/pulser-core", '/repo' + "/pulser-simulation", "/verif"]
from symx.replay import replay
sys.exit(replay(check='checks.c05', kernel='ham', shape={'program': 'xy_slm', 'superset': True},
                assignment={'a0': '1/2', 'd0': '-1/1024', 'a1': '1/1024', 'd1': '-1/1024', 'a2': '1/1024', 'a3': '5/1', 'd2': '1/1024'}, label='ham:offdiag'))
