#!/verif/.venv/bin/python
# Replay of a solver counterexample against the unmodified code (no shims).
# property=C10 kernel=step label=c10:phase_jump_gap
import sys
sys.path[:0] = ["/repo/pulser-core", "/repo/pulser-simulation", "/verif"]
from symx.replay import replay
sys.exit(replay(check='checks.c10', kernel='step', shape={'own': {'clock': 4, 'local': False, 'slots': ['pulseB', 'delay'], 'mod': True, 'pj': 'derived', 'targets_a': ['q0'], 'targets_b': ['q1']}, 'op': ['add_pulse', 'wait-for-all', 'A'], 'maxseq': True, 'nbarriers': 1},
                assignment={'max_sequence_duration': 20, 'own.min_duration': 1, 'own.tr': 4, 'own.s0.dur/k': 1, 'own.s1.dur/k': 1, 'new.dur/k': 1, 'barrier0': 13, 'buf#1.start': 0, 'buf#1.end': 0, 'buf#2.start': 0, 'buf#2.end': 0, 'buf#5.start': 0, 'buf#5.end': 1, 'buf#6.start': 0, 'buf#6.end': 0}, label='c10:phase_jump_gap'))
