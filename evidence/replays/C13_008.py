#!/verif/.venv/bin/python
# Replay of a solver counterexample against the unmodified code (no shims).
# property=C13 kernel=history label=typestate:EOM_p
import sys
sys.path[:0] = ['/repo' + "/pulser-core", '/repo' + "/pulser-simulation", "/verif"]
from symx.replay import replay
sys.exit(replay(check='checks.c13', kernel='history', shape={'device': 'virt', 'k': 1, 'first': 13, 'prefix': ['D_g', 'EOM_on', 'EOM_mod_bad']},
                assignment={}, label='typestate:EOM_p'))
