#!/verif/.venv/bin/python
# Replay of a solver counterexample against the unmodified code (no shims).
# property=C17 kernel=config label=k3:config_roundtrip_completes
import sys
sys.path[:0] = ['/repo' + "/pulser-core", '/repo' + "/pulser-simulation", "/verif"]
from symx.replay import replay
sys.exit(replay(check='checks.c17', kernel='config', shape={'obs': ['fidelity', 'fidelity', 'expectation', 'expectation'], 'times': [True, False, False, True], 'suffix': True},
                assignment={'o0_t0': '0/1', 'o0_t1': '1/1024', 'o3_t0': '0/1', 'o3_t1': '1/1024'}, label='k3:config_roundtrip_completes'))
