#!/verif/.venv/bin/python
# Replay of a solver counterexample against the unmodified code (no shims).
# property=C17 kernel=config label=k3:config_roundtrip_completes
import sys
sys.path[:0] = ['/repo' + "/pulser-core", '/repo' + "/pulser-simulation", "/verif"]
from symx.replay import replay
sys.exit(replay(check='checks.c17', kernel='config', shape={'obs': ['bitstrings'], 'times': [True], 'noise': 'eff'},
                assignment={'o0_t0': '0/1', 'o0_t1': '1/2', 'eff_rate': '1152921504606847/1152921504606846976'}, label='k3:config_roundtrip_completes'))
