#!/verif/.venv/bin/python
# Replay of a solver counterexample against the unmodified code (no shims).
# property=C17 kernel=results label=k4:results_values
import sys
sys.path[:0] = ['/repo' + "/pulser-core", '/repo' + "/pulser-simulation", "/verif"]
from symx.replay import replay
sys.exit(replay(check='checks.c17', kernel='results', shape={'n_obs': 1, 'tags': ['expectation'], 'n_times': 4, 'kinds': ['cseq']},
                assignment={'total_duration': 1, 't0_0': '1/1024', 'v0_0': '0/1', 't0_1': '1/512', 'v0_1': '0/1', 't0_2': '3/1024', 'v0_2': '0/1', 't0_3': '1/256', 'v0_3': '0/1'}, label='k4:results_values'))
