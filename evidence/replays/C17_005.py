#!/verif/.venv/bin/python
# Replay of a solver counterexample against the unmodified code (no shims).
# property=C17 kernel=config label=k3:config_field:observables
import sys
sys.path[:0] = ["/repo/pulser-core", "/repo/pulser-simulation", "/verif"]
from symx.replay import replay
sys.exit(replay(check='checks.c17', kernel='config', shape={'obs': ['bitstrings', 'occupation'], 'times': [False, True], 'default_times': 'sym', 'suffix': True},
                assignment={'o1_t0': '0/1', 'o1_t1': '1/1024', 'd_t0': '0/1', 'd_t1': '1/1024', 'd_t2': '1/512'}, label='k3:config_field:observables'))
