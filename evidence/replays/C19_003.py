#!/verif/.venv/bin/python
# Replay of a solver counterexample against the unmodified code (no shims).
# property=C19 kernel=order label=k1:eq_and_hash_order_independent
import sys
sys.path[:0] = ['/repo' + "/pulser-core", '/repo' + "/pulser-simulation", "/verif"]
from symx.replay import replay
sys.exit(replay(check='checks.c19', kernel='order', shape={'n': 2, 'dims': 2, 'perm': [1, 0]},
                assignment={'p0_0': -499435520, 'p0_1': 83735, 'p1_0': -499435531, 'p1_1': 83755}, label='k1:eq_and_hash_order_independent'))
