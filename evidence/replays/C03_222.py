#!/verif/.venv/bin/python
# Replay of a solver counterexample against the unmodified code (no shims).
# property=C03 kernel=step label=c01:refusal_has_cause
import sys
sys.path[:0] = ["/repo/pulser-core", "/repo/pulser-simulation", "/verif"]
from symx.replay import replay
sys.exit(replay(check='checks.c03', kernel='step', shape={'own': {'clock': 1, 'local': True, 'slots': ['delay', 'pulseB'], 'mod': True, 'pj': 'derived', 'targets_a': ['q0'], 'targets_b': ['q1']}, 'op': ['add_pulse', 'min-delay', 'A'], 'maxseq': True, 'nbarriers': 1},
                assignment={'max_sequence_duration': 20, 'own.min_duration': 5, 'own.tr': 1, 'own.min_retarget': 0, 'own.fixed_retarget': 0, 'own.s0.dur': 5, 'own.s1.dur': 5, 'new.dur': 5, 'barrier0': 14, 'buf#1.start': 0, 'buf#1.end': 0, 'buf#2.start': 0, 'buf#2.end': 1}, label='c01:refusal_has_cause'))
