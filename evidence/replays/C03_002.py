#!/verif/.venv/bin/python
# Replay of a solver counterexample against the unmodified code (no shims).
# property=C03 kernel=align label=c03:align_reaches_latest
import sys
sys.path[:0] = ["/repo/pulser-core", "/repo/pulser-simulation", "/verif"]
from symx.replay import replay
sys.exit(replay(check='checks.c03', kernel='align', shape={'chans': [('g', 'ryd_glob', None), ('l', 'ryd_loc', 'q0')], 'pre': [['d', 'p'], ['p', 'd']], 'at_rest': True},
                assignment={'d0_0/k': 2, 'd0_1/k': 2, 'd1_0/k': 6, 'd1_1/k': 2, 'buf#1.start': 0, 'buf#1.end': 1, 'buf#2.start': 0, 'buf#2.end': 2, 'buf#3.start': 0, 'buf#3.end': 18, 'buf#4.start': 0, 'buf#4.end': 19}, label='c03:align_reaches_latest'))
