#!/verif/.venv/bin/python
# Replay of a solver counterexample against the unmodified code (no shims).
# property=C09 kernel=atomic label=atomic:delay_rest#1
import sys
sys.path[:0] = ['/repo' + "/pulser-core", '/repo' + "/pulser-simulation", "/verif"]
from symx.replay import replay
sys.exit(replay(check='checks.c09', kernel='atomic', shape={'device': 'virt_maxseq', 'prefix': 'p2', 'ops': ['add_g', 'delay_rest']},
                assignment={'pd1/k': 990, 'pd2/k': 2, 'buf#1.start': 0, 'buf#1.end': 5, 'buf#2.start': 0, 'buf#2.end': 5, 'd0': 1, 'a0': '0/1', 'det0': 0, 'dl1': 7}, label='atomic:delay_rest#1'))
