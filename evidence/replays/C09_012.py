#!/verif/.venv/bin/python
# Replay of a solver counterexample against the unmodified code (no shims).
# property=C09 kernel=atomic label=atomic:eom_off#0
import sys
sys.path[:0] = ['/repo' + "/pulser-core", '/repo' + "/pulser-simulation", "/verif"]
from symx.replay import replay
sys.exit(replay(check='checks.c09', kernel='atomic', shape={'device': 'virt_maxseq', 'prefix': 'p2', 'ops': ['eom_off']},
                assignment={'pd1/k': 979, 'pd2/k': 3, 'buf#1.start': 0, 'buf#1.end': 20, 'buf#2.start': 0, 'buf#2.end': 21, 'buf#5.start': 0, 'buf#5.end': 1, 'buf#6.start': 0, 'buf#6.end': 1}, label='atomic:eom_off#0'))
