#!/verif/.venv/bin/python
# Replay of a solver counterexample against the unmodified code (no shims).
# property=C10 kernel=step label=c10:retarget_after_fall
import sys
sys.path[:0] = ['/repo' + "/pulser-core", '/repo' + "/pulser-simulation", "/verif"]
from symx.replay import replay
sys.exit(replay(check='checks.c10', kernel='step', shape={'own': {'clock': 4, 'local': True, 'slots': ['pulseA'], 'mod': True, 'pj': 'custom', 'maxd': True, 'targets_a': ['q0'], 'targets_b': ['q1']}, 'op': ['add_target', 'diff'], 'maxseq': False, 'nbarriers': 1},
                assignment={'own.min_duration': 2, 'own.max_duration': 4, 'own.tr': 3, 'own.pjt': 0, 'own.min_retarget': 8, 'own.fixed_retarget': 1, 'own.s0.dur/k': 1, 'buf#1.start': 0, 'buf#1.end': 2, 'buf#2.start': 0, 'buf#2.end': 0}, label='c10:retarget_after_fall'))
