#!/verif/.venv/bin/python
# Replay of a solver counterexample against the unmodified code (no shims).
# property=C06 kernel=program label=extended:view_after_view
import sys
sys.path[:0] = ['/repo' + "/pulser-core", '/repo' + "/pulser-simulation", "/verif"]
from symx.replay import replay
sys.exit(replay(check='checks.c06', kernel='program', shape={'program': 'eom_nodelay', 'ext': [0, 3]},
                assignment={}, label='extended:view_after_view'))
