#!/verif/.venv/bin/python
# Replay of a solver counterexample against the unmodified code (no shims).
# property=C06 kernel=program label=nested:atom_phase_with_other_global_channels
import sys
sys.path[:0] = ['/repo' + "/pulser-core", '/repo' + "/pulser-simulation", "/verif"]
from symx.replay import replay
sys.exit(replay(check='checks.c06', kernel='program', shape={'program': 'xy_slm_two', 'ext': [0, 3]},
                assignment={'a0': '1/2', 'd0': '0/1', 'a1': '1/2', 'd1': '0/1', 'a2': '1/2', 'd2': '0/1'}, label='nested:atom_phase_with_other_global_channels'))
