#!/verif/.venv/bin/python
# Replay of a solver counterexample against the unmodified code (no shims).
# property=C17 kernel=device label=k2:device_channel_ids
import sys
sys.path[:0] = ['/repo' + "/pulser-core", '/repo' + "/pulser-simulation", "/verif"]
from symx.replay import replay
sys.exit(replay(check='checks.c17', kernel='device', shape={'opt': ['mod'], 'virtual': True},
                assignment={'clock': 1, 'mind': 64, 'maxd': 64, 'bw': '1/1', 'g_maxdet': '1/1', 'g_maxamp': '1/1', 'l_maxdet': '1/1', 'l_maxamp': '1/1', 'retarget': 0, 'fixedt': 0, 'bottom': '1/1', 'mindist': '0/1'}, label='k2:device_channel_ids'))
