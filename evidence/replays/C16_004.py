#!/verif/.venv/bin/python
# Replay of a solver counterexample against the unmodified code (no shims).
# property=C16 kernel=pulse label=k4:arb_phase_reproduced
import sys
sys.path[:0] = ["/repo/pulser-core", "/repo/pulser-simulation", "/verif"]
from symx.replay import replay
sys.exit(replay(check='checks.c16', kernel='pulse', shape={'what': 'arb', 'kind': 'custom', 'n': 3},
                assignment={'phi0': '39229421819982868085743327557818714729681588894816711953547/2353871696905430425028542346203157611021031243665371037696', 'phi1': '9807663396648582410141083989341454787772694366340628970495967/294233962113178803128567793275394701377628905458171379712000', 'phi2': '50/1'}, label='k4:arb_phase_reproduced'))
