#!/verif/.venv/bin/python
# Replay of a solver counterexample against the unmodified code (no shims).
# property=C16 kernel=pulse label=k4:arb_phase_reproduced
import sys
sys.path[:0] = ['/repo' + "/pulser-core", '/repo' + "/pulser-simulation", "/verif"]
from symx.replay import replay
sys.exit(replay(check='checks.c16', kernel='pulse', shape={'what': 'arb', 'kind': 'custom', 'n': 3},
                assignment={'phi0': '-17422457186355534183439796194906589827615331/1045343946689685696602890804721280880738304', 'phi1': '-4355614296588883500525230813168986461775123031/130667993336210712075361350590160110092288000', 'phi2': '-50/1'}, label='k4:arb_phase_reproduced'))
