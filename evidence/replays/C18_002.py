#!/verif/.venv/bin/python
# Replay of a solver counterexample against the unmodified code (no shims).
# property=C18 kernel=switch label=nonstrict:within_limits_of_new_device
import sys
sys.path[:0] = ['/repo' + "/pulser-core", '/repo' + "/pulser-simulation", "/verif"]
from symx.replay import replay
sys.exit(replay(check='checks.c18', kernel='switch', shape={'program': 'retarget', 'sym': [['ryd_loc', 'min_duration']], 'strict': False},
                assignment={'buf#1.start': 0, 'buf#1.end': 12, 'buf#2.start': 0, 'buf#2.end': 13, 'ryd_loc.min_duration': 13}, label='nonstrict:within_limits_of_new_device'))
