#!/verif/.venv/bin/python
# Replay of a solver counterexample against the unmodified code (no shims).
# property=C18 kernel=switch label=strict:identical_timeline
import sys
sys.path[:0] = ['/repo' + "/pulser-core", '/repo' + "/pulser-simulation", "/verif"]
from symx.replay import replay
sys.exit(replay(check='checks.c18', kernel='switch', shape={'program': 'slm', 'sym': [], 'concrete': [['dmm_0', 'bottom_detuning', -5.0]], 'strict': True},
                assignment={'buf#1.start': 0, 'buf#1.end': 1, 'buf#2.start': 0, 'buf#2.end': 24, 'buf#5.start': 0, 'buf#5.end': 0, 'buf#8.start': 0, 'buf#8.end': 10}, label='strict:identical_timeline'))
