#!/verif/.venv/bin/python
# Replay of a solver counterexample against the unmodified code (no shims).
# property=C18 kernel=switch label=strict:identical_timeline
import sys
sys.path[:0] = ["/repo/pulser-core", "/repo/pulser-simulation", "/verif"]
from symx.replay import replay
sys.exit(replay(check='checks.c18', kernel='switch', shape={'program': 'eom_twice', 'device': 'virt_reuse', 'sym': [], 'concrete': [['ryd_glob', 'eom.intermediate_detuning', 6597.344572538565]], 'reusable': True, 'strict': True, 'param': True},
                assignment={}, label='strict:identical_timeline'))
