#!/verif/.venv/bin/python
# Replay of a solver counterexample against the unmodified code (no shims).
# property=C18 kernel=switch label=switch:within_max_sequence_duration
import sys
sys.path[:0] = ['/repo' + "/pulser-core", '/repo' + "/pulser-simulation", "/verif"]
from symx.replay import replay
sys.exit(replay(check='checks.c18', kernel='switch', shape={'program': 'retarget_tail', 'sym': [['ryd_loc', 'fixed_retarget_t']], 'maxseq': True, 'strict': True},
                assignment={'buf#1.start': 0, 'buf#1.end': 0, 'buf#2.start': 0, 'buf#2.end': 1, 'ryd_loc.fixed_retarget_t': 12, 'B.max_sequence_duration': 428}, label='switch:within_max_sequence_duration'))
