#!/verif/.venv/bin/python
# Replay of a solver counterexample against the unmodified code (no shims).
# property=C12 kernel=coords label=k1:radius_error_has_cause
import sys
sys.path[:0] = ["/repo/pulser-core", "/repo/pulser-simulation", "/verif"]
from symx.replay import replay
sys.exit(replay(check='checks.c12', kernel='coords', shape={'dims': 3, 'n': 3, 'nsym': 1, 'mind': True, 'maxr': True, 'maxn': True},
                assignment={'min_atom_distance': '45785046479056831638925/4722366482869645213696', 'max_radial_distance': '481926098286144069171284592375/79228162514264337593543950336', 'max_atom_num': 3, 'x0_0': '60/1', 'x0_1': '60/1', 'x0_2': '11701/200'}, label='k1:radius_error_has_cause'))
