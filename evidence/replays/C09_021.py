#!/verif/.venv/bin/python
# Replay of a solver counterexample against the unmodified code (no shims).
# property=C09 kernel=unknown_var label=foreign_var:unchanged
import sys
sys.path[:0] = ["/repo/pulser-core", "/repo/pulser-simulation", "/verif"]
from symx.replay import replay
sys.exit(replay(check='checks.c09', kernel='unknown_var', shape={'device': 'virt_maxseq', 'prefix': 'p0', 'call': 'add_own_badchannel', 'own_var': False},
                assignment={}, label='foreign_var:unchanged'))
