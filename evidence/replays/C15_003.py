#!/verif/.venv/bin/python
# Replay of a solver counterexample against the unmodified code (no shims).
# property=C15 kernel=eomcfg label=k1:result_is_closest
import sys
sys.path[:0] = ["/repo/pulser-core", "/repo/pulser-simulation", "/verif"]
from symx.replay import replay
sys.exit(replay(check='checks.c15', kernel='eomcfg', shape={'cfg': {'lim': 'R', 'ctrl': ['B']}},
                assignment={'amp_on': '2069/512', 'detuning_on': '527/256', 'optimal_detuning_off': '19/512'}, label='k1:result_is_closest'))
