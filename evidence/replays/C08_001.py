#!/verif/.venv/bin/python
# Replay of a solver counterexample against the unmodified code (no shims).
# property=C08 kernel=build label=build:equals_direct_construction
import sys
sys.path[:0] = ['/repo' + "/pulser-core", '/repo' + "/pulser-simulation", "/verif"]
from symx.replay import replay
sys.exit(replay(check='checks.c08', kernel='build', shape={'program': 'kw_only'},
                assignment={'v_a0': '1/8', 'v_b0': '1/8', 'w_a0': '129/1024', 'w_b0': '129/1024'}, label='build:equals_direct_construction'))
