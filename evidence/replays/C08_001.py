#!/verif/.venv/bin/python
# Replay of a solver counterexample against the unmodified code (no shims).
# property=C08 kernel=mappable label=mappable:declared_order
import sys
sys.path[:0] = ["/repo/pulser-core", "/repo/pulser-simulation", "/verif"]
from symx.replay import replay
sys.exit(replay(check='checks.c08', kernel='mappable', shape={'ids': ['control', 'target', 'ancilla'], 'chosen': {'control': 5, 'target': 0, 'ancilla': 9}, 'index': 1},
                assignment={'amp': '1/1024'}, label='mappable:declared_order'))
