#!/verif/.venv/bin/python
# Replay of a solver counterexample against the unmodified code (no shims).
# property=C10 kernel=two label=c10:phase_jump_gap
import sys
sys.path[:0] = ["/repo/pulser-core", "/repo/pulser-simulation", "/verif"]
from symx.replay import replay
sys.exit(replay(check='checks.c10', kernel='two', shape={'own': {'clock': 4, 'local': False, 'slots': ['pulseA'], 'mod': True, 'pj': 'derived', 'targets_a': ['q0'], 'targets_b': ['q1']}, 'other': {'clock': 1, 'local': False, 'slots': ['pulseA', 'pulseB'], 'mod': True, 'pj': 'derived', 'targets_a': ['q1'], 'targets_b': ['q2']}, 'op': ['add_pulse', 'min-delay', 'B'], 'maxseq': False, 'nbarriers': 1},
                assignment={'own.min_duration': 7, 'own.tr': 3, 'own.s0.dur/k': 2, 'other.min_duration': 1, 'other.tr': 1, 'other.s0.dur': 1, 'other.s1.dur': 1, 'new.dur/k': 2, 'barrier0': 14, 'buf#1.start': 0, 'buf#1.end': 0, 'buf#2.start': 0, 'buf#2.end': 1, 'buf#3.start': 0, 'buf#3.end': 0, 'buf#4.start': 0, 'buf#4.end': 0, 'buf#11.start': 0, 'buf#11.end': 0, 'buf#12.start': 0, 'buf#12.end': 0}, label='c10:phase_jump_gap'))
