#!/verif/.venv/bin/python
# Replay of a solver counterexample against the unmodified code (no shims).
# property=C09 kernel=l1 label=c09:raise_unchanged
import sys
sys.path[:0] = ['/repo' + "/pulser-core", '/repo' + "/pulser-simulation", "/verif"]
from symx.replay import replay
sys.exit(replay(check='checks.c09', kernel='l1', shape={'own': {'clock': 1, 'local': False, 'slots': ['pulseA'], 'mod': True, 'pj': 'derived', 'det_off': 0.0, 'eom': {'custom_buffer': False, 'blocks': [(0, None)]}}, 'op': ['modify_eom', 0.0], 'maxseq': True, 'nbarriers': 1},
                assignment={'max_sequence_duration': 3, 'own.min_duration': 2, 'own.tr': 1, 'own.eom_tr': 1, 'own.s0.dur': 2, 'buf#1.start': 0, 'buf#1.end': 0, 'buf#2.start': 0, 'buf#2.end': 0}, label='c09:raise_unchanged'))
