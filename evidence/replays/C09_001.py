#!/verif/.venv/bin/python
# Replay of a solver counterexample against the unmodified code (no shims).
# property=C09 kernel=readonly label=readonly:queries_answer
import sys
sys.path[:0] = ['/repo' + "/pulser-core", '/repo' + "/pulser-simulation", "/verif"]
from symx.replay import replay
sys.exit(replay(check='checks.c09', kernel='readonly', shape={'device': 'virt_maxseq', 'what': 'queries_param_slm', 'eom': False},
                assignment={'a0': '1/1024', 'd0': -200000000, 'a1': '1/512', 'a2': '1/1024', 'buf#1.start': 0, 'buf#1.end': 0, 'buf#2.start': 0, 'buf#2.end': 1, 'buf#9.start': 0, 'buf#9.end': 1, 'buf#10.start': 0, 'buf#10.end': 1}, label='readonly:queries_answer'))
