#!/verif/.venv/bin/python
# Replay of a solver counterexample against the unmodified code (no shims).
# property=C13 kernel=history label=typestate:VAR
import sys
sys.path[:0] = ['/repo' + "/pulser-core", '/repo' + "/pulser-simulation", "/verif"]
from symx.replay import replay
sys.exit(replay(check='checks.c13', kernel='history', shape={'device': 'virt', 'k': 3, 'first': 2},
                assignment={'op1': 15, 'op2': 17}, label='typestate:VAR'))
