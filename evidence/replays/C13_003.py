#!/verif/.venv/bin/python
# Replay of a solver counterexample against the unmodified code (no shims).
# property=C13 kernel=history label=typestate:VAR_EOM
import sys
sys.path[:0] = ['/repo' + "/pulser-core", '/repo' + "/pulser-simulation", "/verif"]
from symx.replay import replay
sys.exit(replay(check='checks.c13', kernel='history', shape={'device': 'virt', 'k': 2, 'first': 15, 'prefix': ['D_g', 'EOM_on']},
                assignment={'op3': 24}, label='typestate:VAR_EOM'))
