#!/verif/.venv/bin/python
# Replay of a solver counterexample against the unmodified code (no shims).
# property=C02 kernel=step label=c02:duration_fall
import sys
sys.path[:0] = ['/repo' + "/pulser-core", '/repo' + "/pulser-simulation", "/verif"]
from symx.replay import replay
sys.exit(replay(check='checks.c02', kernel='step', shape={'own': {'clock': 1, 'local': False, 'slots': ['pulseA'], 'mod': True, 'pj': 'custom', 'targets_a': ['q0'], 'targets_b': ['q1']}, 'op': ['add_delay'], 'maxseq': True, 'nbarriers': 1},
                assignment={'max_sequence_duration': 2, 'own.min_duration': 1, 'own.tr': 1, 'own.pjt': 0, 'own.s0.dur': 1, 'new.delay': 1, 'buf#1.start': 0, 'buf#1.end': 1, 'buf#2.start': 0, 'buf#2.end': 0}, label='c02:duration_fall'))
