#!/verif/.venv/bin/python
# Replay of a solver counterexample against the unmodified code (no shims).
# property=C02 kernel=step label=c02:inv_max_len
import sys
sys.path[:0] = ['/repo' + "/pulser-core", '/repo' + "/pulser-simulation", "/verif"]
from symx.replay import replay
sys.exit(replay(check='checks.c02', kernel='step', shape={'own': {'clock': 4, 'local': False, 'slots': [], 'mod': True, 'pj': 'custom', 'maxd': True, 'targets_a': ['q0'], 'targets_b': ['q1']}, 'op': ['add_delay'], 'maxseq': False, 'nbarriers': 1},
                assignment={'own.min_duration': 5, 'own.max_duration': 5, 'own.tr': 1, 'own.pjt': 0, 'new.delay': 5}, label='c02:inv_max_len'))
