#!/verif/.venv/bin/python
# Replay of a solver counterexample against the unmodified code (no shims).
# property=C01 kernel=vd label=vd:le_max
import sys
sys.path[:0] = ['/repo' + "/pulser-core", '/repo' + "/pulser-simulation", "/verif"]
from symx.replay import replay
sys.exit(replay(check='checks.c01', kernel='vd', shape={'clock': 8, 'maxdef': True},
                assignment={'min_duration': 1, 'max_duration': 1, 'duration': 1}, label='vd:le_max'))
