#!/verif/.venv/bin/python
# Replay of a solver counterexample against the unmodified code (no shims).
# property=C08 kernel=build label=build:independent_results
import sys
sys.path[:0] = ["/repo/pulser-core", "/repo/pulser-simulation", "/verif"]
from symx.replay import replay
sys.exit(replay(check='checks.c08', kernel='build', shape={'program': 'vars_list_operand'},
                assignment={}, label='build:independent_results'))
