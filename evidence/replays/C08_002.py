#!/verif/.venv/bin/python
# Replay of a solver counterexample against the unmodified code (no shims).
# property=C08 kernel=build label=build:same_static_parts
import sys
sys.path[:0] = ['/repo' + "/pulser-core", '/repo' + "/pulser-simulation", "/verif"]
from symx.replay import replay
sys.exit(replay(check='checks.c08', kernel='build', shape={'program': 'mappable_index_full'},
                assignment={'v_a0': '1/8', 'w_a0': '1/8'}, label='build:same_static_parts'))
