#!/verif/.venv/bin/python
# Replay of a solver counterexample against the unmodified code (no shims).
# property=C04 kernel=roundtrip label=abstract:roundtrip_completes
import sys
sys.path[:0] = ['/repo' + "/pulser-core", '/repo' + "/pulser-simulation", "/verif"]
from symx.replay import replay
sys.exit(replay(check='checks.c04', kernel='roundtrip', shape={'program': 'xy', 'codec': 'abstract', 'kwmode': True},
                assignment={'p0': 0, 's0': 0, 's1': 29, 'bx': '5119/1024', 'bz': '635/16', 'a0': '1/1024', 'd0': -200000000, 'a1': '1/1024'}, label='abstract:roundtrip_completes'))
