#!/verif/.venv/bin/python
# Replay of a solver counterexample against the unmodified code (no shims).
# property=C04 kernel=param label=abstract:built_identical_timeline
import sys
sys.path[:0] = ['/repo' + "/pulser-core", '/repo' + "/pulser-simulation", "/verif"]
from symx.replay import replay
sys.exit(replay(check='checks.c04', kernel='param', shape={'program': 'mappable_shift_all', 'codec': 'abstract'},
                assignment={'v_a0': '513/1024'}, label='abstract:built_identical_timeline'))
