#!/verif/.venv/bin/python
# Replay of a solver counterexample against the unmodified code (no shims).
# property=C04 kernel=roundtrip label=abstract:same_static_parts
import sys
sys.path[:0] = ["/repo/pulser-core", "/repo/pulser-simulation", "/verif"]
from symx.replay import replay
sys.exit(replay(check='checks.c04', kernel='roundtrip', shape={'program': 'dmm', 'codec': 'abstract'},
                assignment={'w0': '0/1', 'a0': '1/1024', 'd0': -200000000, 'e0': -99999776, 'e1': -49999900}, label='abstract:same_static_parts'))
