#!/verif/.venv/bin/python
# Replay of a solver counterexample against the unmodified code (no shims).
# property=C03 kernel=estimate label=c03:estimate_equals_inserted_delay
import sys
sys.path[:0] = ['/repo' + "/pulser-core", '/repo' + "/pulser-simulation", "/verif"]
from symx.replay import replay
sys.exit(replay(check='checks.c03', kernel='estimate', shape={'program': 'dmm_after_shift', 'protocol': 'no-delay'},
                assignment={'ph0': 0, 'd0/k': 2, 'phi1': 0, 'dn/k': 2}, label='c03:estimate_equals_inserted_delay'))
