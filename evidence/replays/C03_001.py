#!/verif/.venv/bin/python
# Replay of a solver counterexample against the unmodified code (no shims).
# property=C03 kernel=step label=c03:start_exact
import sys
sys.path[:0] = ["/repo/pulser-core", "/repo/pulser-simulation", "/verif"]
from symx.replay import replay
sys.exit(replay(check='checks.c03', kernel='step', shape={'own': {'clock': 1, 'local': False, 'slots': ['pulseA'], 'mod': True, 'pj': 'custom', 'targets_a': ['q0'], 'targets_b': ['q1']}, 'op': ['add_pulse', 'min-delay', 'B'], 'maxseq': True, 'nbarriers': 1},
                assignment={'max_sequence_duration': 12, 'own.min_duration': 4, 'own.tr': 1, 'own.pjt': 4, 'own.s0.dur': 4, 'new.dur': 4, 'barrier0': 6, 'buf#1.start': 0, 'buf#1.end': 0, 'buf#2.start': 0, 'buf#2.end': 0, 'buf#3.start': 0, 'buf#3.end': 0, 'buf#4.start': 0, 'buf#4.end': 0}, label='c03:start_exact'))
