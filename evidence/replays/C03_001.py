#!/verif/.venv/bin/python
# Replay of a solver counterexample against the unmodified code (no shims).
# property=C03 kernel=estimate label=c03:estimate_equals_inserted_delay
import sys
sys.path[:0] = ["/repo/pulser-core", "/repo/pulser-simulation", "/verif"]
from symx.replay import replay
sys.exit(replay(check='checks.c03', kernel='estimate', shape={'program': 'phase_ref_from_post_shift', 'protocol': 'wait-for-all'},
                assignment={'ph0': 0, 'post0': 1, 'd0/k': 2, 'dn/k': 2, 'phn': 359, 'buf#1.start': 0, 'buf#1.end': 0, 'buf#2.start': 0, 'buf#2.end': 1}, label='c03:estimate_equals_inserted_delay'))
