#!/verif/.venv/bin/python
# Replay of a solver counterexample against the unmodified code (no shims).
# property=C03 kernel=eom label=c03:no_delay_start
import sys
sys.path[:0] = ['/repo' + "/pulser-core", '/repo' + "/pulser-simulation", "/verif"]
from symx.replay import replay
sys.exit(replay(check='checks.c03', kernel='eom', shape={'own': {'clock': 4, 'local': False, 'slots': [], 'mod': True, 'pj': 'derived', 'det_off': 0.0, 'eom': {'custom_buffer': False, 'blocks': [(0, None)]}}, 'op': ['add_pulse', 'no-delay', 'A'], 'maxseq': True, 'nbarriers': 1},
                assignment={'max_sequence_duration': 6, 'own.min_duration': 2, 'own.tr': 1, 'own.eom_tr': 1, 'new.dur/k': 1, 'barrier0': 1, 'buf#1.start': 0, 'buf#1.end': 0, 'buf#2.start': 0, 'buf#2.end': 0}, label='c03:no_delay_start'))
