#!/verif/.venv/bin/python
# Replay of a solver counterexample against the unmodified code (no shims).
# property=C09 kernel=atomic label=atomic:align#1
import sys
sys.path[:0] = ['/repo' + "/pulser-core", '/repo' + "/pulser-simulation", "/verif"]
from symx.replay import replay
sys.exit(replay(check='checks.c09', kernel='atomic', shape={'device': 'virt_maxseq', 'prefix': 'p2', 'ops': ['delay_rest', 'align']},
                assignment={'pd1/k': 2, 'pd2/k': 987, 'buf#1.start': 0, 'buf#1.end': 0, 'buf#2.start': 0, 'buf#2.end': 1, 'dl0': 3957, 'buf#7.start': 0, 'buf#7.end': 2, 'buf#8.start': 0, 'buf#8.end': 3}, label='atomic:align#1'))
