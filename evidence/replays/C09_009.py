#!/verif/.venv/bin/python
# Replay of a solver counterexample against the unmodified code (no shims).
# property=C09 kernel=atomic label=atomic:target#1
import sys
sys.path[:0] = ['/repo' + "/pulser-core", '/repo' + "/pulser-simulation", "/verif"]
from symx.replay import replay
sys.exit(replay(check='checks.c09', kernel='atomic', shape={'device': 'virt_maxseq', 'prefix': 'p1', 'ops': ['add_g', 'target']},
                assignment={'pd0/k': 2, 'pd1/k': 982, 'buf#1.start': 0, 'buf#1.end': 0, 'buf#2.start': 0, 'buf#2.end': 1, 'd0': 1, 'a0': '4702873571728431/281474976710656', 'det0': 0, 'buf#5.start': 0, 'buf#5.end': 0, 'buf#6.start': 0, 'buf#6.end': 1}, label='atomic:target#1'))
