#!/verif/.venv/bin/python
# Replay of a solver counterexample against the unmodified code (no shims).
# property=C18 kernel=register label=register:all_calls_replayed
import sys
sys.path[:0] = ['/repo' + "/pulser-core", '/repo' + "/pulser-simulation", "/verif"]
from symx.replay import replay
sys.exit(replay(check='checks.c18', kernel='register', shape={'program': 'eom_drift'},
                assignment={'buf#1.start': 0, 'buf#1.end': 0, 'buf#2.start': 0, 'buf#2.end': 1}, label='register:all_calls_replayed'))
