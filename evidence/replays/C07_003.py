#!/verif/.venv/bin/python
# Replay of a solver counterexample against the unmodified code (no shims).
# property=C07 kernel=seq label=k2:ref_additive_step
import sys
sys.path[:0] = ["/repo/pulser-core", "/repo/pulser-simulation", "/verif"]
from symx.replay import replay
sys.exit(replay(check='checks.c07', kernel='seq', shape={'device': 'mock', 'channels': [('a', 'raman_global', None), ('b', 'raman_local', 'q0'), ('r', 'rydberg_global', None)], 'program': [['add', 'a', 'min-delay', 16, True], ['shift', ['q0'], 'digital'], ['add', 'a', 'min-delay', 16, False]]},
                assignment={'ph0': 0, 'post0': 1, 'phi1': 1, 'ph2': 0}, label='k2:ref_additive_step'))
