#!/verif/.venv/bin/python
# Replay of a solver counterexample against the unmodified code (no shims).
# property=C07 kernel=seq label=k2:ref_additive_step
import sys
sys.path[:0] = ['/repo' + "/pulser-core", '/repo' + "/pulser-simulation", "/verif"]
from symx.replay import replay
sys.exit(replay(check='checks.c07', kernel='seq', shape={'device': 'virt', 'channels': [('a', 'ram_glob', None), ('b', 'ram_loc', 'q0'), ('r', 'ryd_glob', None)], 'program': [['shift', ['q0', 'q1', 'q2'], 'ground-rydberg'], ['eom_on', 'r'], ['add_eom', 'r', 16, True], ['add_eom', 'r', 20, False], ['add_eom', 'r', 16, True], ['eom_off', 'r'], ['add', 'r', 'min-delay', 16, False]]},
                assignment={'phi0': 1, 'ph2': 359, 'post2': 1, 'ph3': 0, 'buf#1.start': 0, 'buf#1.end': 0, 'buf#2.start': 0, 'buf#2.end': 0, 'ph4': 1, 'post4': 0, 'buf#3.start': 0, 'buf#3.end': 0, 'buf#4.start': 0, 'buf#4.end': 1, 'buf#5.start': 0, 'buf#5.end': 0, 'buf#6.start': 0, 'buf#6.end': 17, 'ph6': 2}, label='k2:ref_additive_step'))
