#!/verif/.venv/bin/python
# Replay of a solver counterexample against the unmodified code (no shims).
# property=C07 kernel=qubitref label=k1:last_used_monotone
import sys
sys.path[:0] = ['/repo' + "/pulser-core", '/repo' + "/pulser-simulation", "/verif"]
from symx.replay import replay
sys.exit(replay(check='checks.c07', kernel='qubitref', shape={'ops': ['inc', 'use', 'use']},
                assignment={'phi0': 0, 't1': 1, 't2': 0}, label='k1:last_used_monotone'))
