#!/verif/.venv/bin/python
# Replay of a solver counterexample against the unmodified code (no shims).
# property=C07 kernel=seq label=k2:not_before_last_shift
import sys
sys.path[:0] = ["/repo/pulser-core", "/repo/pulser-simulation", "/verif"]
from symx.replay import replay
sys.exit(replay(check='checks.c07', kernel='seq', shape={'device': 'mock', 'channels': [('a', 'raman_global', None), ('b', 'raman_local', 'q0'), ('r', 'rydberg_global', None)], 'program': [['add', 'a', 'min-delay', 32, True], ['add', 'b', 'no-delay', 16, False]]},
                assignment={'ph0': -1440, 'post0': 1, 'ph1': -1440}, label='k2:not_before_last_shift'))
