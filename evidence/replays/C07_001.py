#!/verif/.venv/bin/python
# Replay of a solver counterexample against the unmodified code (no shims).
# property=C07 kernel=seq label=k2:pulse_phase_is_programmed_plus_ref
import sys
sys.path[:0] = ["/repo/pulser-core", "/repo/pulser-simulation", "/verif"]
from symx.replay import replay
sys.exit(replay(check='checks.c07', kernel='seq', shape={'device': 'virt', 'channels': [('a', 'ram_glob', None), ('b', 'ram_loc', 'q0'), ('r', 'ryd_glob', None)], 'program': [['shift', [], 'ground-rydberg'], ['add', 'r', 'min-delay', 17, True], ['add', 'r', 'min-delay', 19, False], ['shift', ['q0'], 'digital'], ['add', 'b', 'min-delay', 15, False]]},
                assignment={'phi0': 358, 'ph1': 0, 'post1': 1, 'ph2': 1, 'buf#1.start': 0, 'buf#1.end': 0, 'buf#2.start': 0, 'buf#2.end': 1, 'phi3': 1, 'ph4': 0}, label='k2:pulse_phase_is_programmed_plus_ref'))
