#!/verif/.venv/bin/python
# Replay of a solver counterexample against the unmodified code (no shims).
# property=C12 kernel=coords label=k1:offending_pairs_exact
import sys
sys.path[:0] = ["/repo/pulser-core", "/repo/pulser-simulation", "/verif"]
from symx.replay import replay
sys.exit(replay(check='checks.c12', kernel='coords', shape={'dims': 3, 'n': 3, 'nsym': 1, 'mind': True, 'maxr': False, 'maxn': True},
                assignment={'min_atom_distance': '21832011451271453/2251799813685248', 'max_atom_num': 3, 'x0_0': '6/1', 'x0_1': '0/1', 'x0_2': '1/1'}, label='k1:offending_pairs_exact'))
