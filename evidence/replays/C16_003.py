#!/verif/.venv/bin/python
# Replay of a solver counterexample against the unmodified code (no shims).
# property=C16 kernel=values label=k2:samples_computable
import sys
sys.path[:0] = ['/repo' + "/pulser-core", '/repo' + "/pulser-simulation", "/verif"]
from symx.replay import replay
sys.exit(replay(check='checks.c16', kernel='values', shape={'cls': 'interp', 'dur': 21, 'values': [0.0, 2.0, 1.0], 'kw': {'times': [0.0, 1.0, 0.5], 'interpolator': 'interp1d'}},
                assignment={}, label='k2:samples_computable'))
