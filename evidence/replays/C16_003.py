#!/verif/.venv/bin/python
# Replay of a solver counterexample against the unmodified code (no shims).
# property=C16 kernel=kaiser_max label=k3:kaiser_one_ns_shorter_would_exceed
import sys
sys.path[:0] = ["/repo/pulser-core", "/repo/pulser-simulation", "/verif"]
from symx.replay import replay
sys.exit(replay(check='checks.c16', kernel='kaiser_max', shape={'max_val': 20.0, 'beta': 14.0, 'lo': 0.08213786593161485, 'hi': 0.10185095375520241},
                assignment={'area': '89/1024'}, label='k3:kaiser_one_ns_shorter_would_exceed'))
