#!/verif/.venv/bin/python
# Replay of a solver counterexample against the unmodified code (no shims).
# property=C16 kernel=phase_fp label=k4:fp_phase_below_2pi
import sys
sys.path[:0] = ['/repo' + "/pulser-core", '/repo' + "/pulser-simulation", "/verif"]
from symx.replay import replay
sys.exit(replay(check='checks.c16', kernel='phase_fp', shape={},
                assignment={'x_bits': 9223407221226864640}, label='k4:fp_phase_below_2pi'))
