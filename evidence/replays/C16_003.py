#!/verif/.venv/bin/python
# Replay of a solver counterexample against the unmodified code (no shims).
# property=C16 kernel=values label=k2:change_duration_is_direct_construction
import sys
sys.path[:0] = ['/repo' + "/pulser-core", '/repo' + "/pulser-simulation", "/verif"]
from symx.replay import replay
sys.exit(replay(check='checks.c16', kernel='values', shape={'cls': 'interp', 'dur': 12, 'values': [0.0, 5.0, 1.0], 'kw': {'times': [0.1, 0.45, 0.9], 'interpolator': 'interp1d', 'kind': 'linear', 'fill_value': 'extrapolate'}},
                assignment={}, label='k2:change_duration_is_direct_construction'))
