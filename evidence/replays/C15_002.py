#!/verif/.venv/bin/python
# Replay of a solver counterexample against the unmodified code (no shims).
# property=C15 kernel=l1 label=c15:disable_buffer
import sys
sys.path[:0] = ['/repo' + "/pulser-core", '/repo' + "/pulser-simulation", "/verif"]
from symx.replay import replay
sys.exit(replay(check='checks.c15', kernel='l1', shape={'own': {'clock': 1, 'local': False, 'slots': [], 'mod': True, 'pj': 'derived', 'det_off': 0.0, 'eom': {'custom_buffer': True, 'blocks': [(0, None)]}}, 'op': ['disable_eom'], 'maxseq': True, 'nbarriers': 1},
                assignment={'max_sequence_duration': 4, 'own.min_duration': 3, 'own.tr': 2, 'own.eom_buffer': 2, 'own.eom_tr': 1}, label='c15:disable_buffer'))
