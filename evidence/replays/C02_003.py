#!/verif/.venv/bin/python
# Replay of a solver counterexample against the unmodified code (no shims).
# property=C02 kernel=eom label=c02:prefix
import sys
sys.path[:0] = ['/repo' + "/pulser-core", '/repo' + "/pulser-simulation", "/verif"]
from symx.replay import replay
sys.exit(replay(check='checks.c02', kernel='eom', shape={'own': {'clock': 1, 'local': False, 'slots': ['pulseA', 'delay'], 'mod': True, 'pj': 'derived', 'det_off': 0.0, 'eom': {'custom_buffer': False, 'blocks': []}}, 'op': ['enable_eom', 0.0], 'maxseq': True},
                assignment={'max_sequence_duration': 5, 'own.min_duration': 1, 'own.tr': 1, 'own.eom_tr': 1, 'own.s0.dur': 1, 'own.s1.dur': 1, 'buf#1.start': 0, 'buf#1.end': 0, 'buf#2.start': 0, 'buf#2.end': 1, 'buf#3.start': 0, 'buf#3.end': 0, 'buf#4.start': 0, 'buf#4.end': 0}, label='c02:prefix'))
