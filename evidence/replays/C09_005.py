#!/verif/.venv/bin/python
# Replay of a solver counterexample against the unmodified code (no shims).
# property=C09 kernel=atomic label=atomic:eom_on#1
import sys
sys.path[:0] = ['/repo' + "/pulser-core", '/repo' + "/pulser-simulation", "/verif"]
from symx.replay import replay
sys.exit(replay(check='checks.c09', kernel='atomic', shape={'device': 'virt_maxseq', 'prefix': 'p0', 'ops': ['add_g', 'eom_on']},
                assignment={'d0': 3925, 'a0': '1/2', 'det0': 2513274116, 'buf#1.start': 0, 'buf#1.end': 1, 'buf#2.start': 0, 'buf#2.end': 0}, label='atomic:eom_on#1'))
