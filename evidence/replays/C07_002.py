#!/verif/.venv/bin/python
# Replay of a solver counterexample against the unmodified code (no shims).
# property=C07 kernel=qubitref label=k1:additive_step
import sys
sys.path[:0] = ['/repo' + "/pulser-core", '/repo' + "/pulser-simulation", "/verif"]
from symx.replay import replay
sys.exit(replay(check='checks.c07', kernel='qubitref', shape={'ops': ['use', 'inc', 'use', 'inc']},
                assignment={'t0': 1, 'phi1': 0, 't2': 0, 'phi3': 1}, label='k1:additive_step'))
