#!/verif/.venv/bin/python
# Replay of a solver counterexample against the unmodified code (no shims).
# property=C07 kernel=seq label=k2:ref_additive_step
import sys
sys.path[:0] = ['/repo' + "/pulser-core", '/repo' + "/pulser-simulation", "/verif"]
from symx.replay import replay
sys.exit(replay(check='checks.c07', kernel='seq', shape={'device': 'mock', 'channels': [('r', 'rydberg_global', None)], 'pre_dmm': 'dmap', 'program': [['shift', ['q0'], 'ground-rydberg'], ['shift', ['q1', 'q2'], 'ground-rydberg'], ['add', 'r', 'min-delay', 16, True], ['shift', ['q2'], 'ground-rydberg']]},
                assignment={'phi0': 0, 'phi1': 1, 'ph2': 0, 'post2': 1, 'phi3': 0}, label='k2:ref_additive_step'))
