#!/verif/.venv/bin/python
# Replay of a solver counterexample against the unmodified code (no shims).
# property=C16 kernel=values label=k2:finite
import sys
sys.path[:0] = ['/repo' + "/pulser-core", '/repo' + "/pulser-simulation", "/verif"]
from symx.replay import replay
sys.exit(replay(check='checks.c16', kernel='values', shape={'cls': 'ramp', 'dur': 1, 'div': True, 'eq': True},
                assignment={'start': '0/1', 'stop': '0/1'}, label='k2:finite'))
