#!/verif/.venv/bin/python
# Replay of a solver counterexample against the unmodified code (no shims).
# property=C08 kernel=build label=build:reproducible
import sys
sys.path[:0] = ["/repo/pulser-core", "/repo/pulser-simulation", "/verif"]
from symx.replay import replay
sys.exit(replay(check='checks.c08', kernel='build', shape={'program': 'vars_items'},
                assignment={'v_arr0': '37779312674590340317789/302231454903657293676544', 'v_arr1': '1/8', 'v_arr2': '535212532585905148643024269896689521217292621/178404177510788506523463980366722128649272832', 'w_arr0': '1/8', 'w_arr1': '1/8', 'w_arr2': '535217886548812411875465951693859890614028621/178404177510788506523463980366722128649272832'}, label='build:reproducible'))
