#!/verif/.venv/bin/python
# Replay of a solver counterexample against the unmodified code (no shims).
# property=C08 kernel=build label=build:template_unchanged
import sys
sys.path[:0] = ['/repo' + "/pulser-core", '/repo' + "/pulser-simulation", "/verif"]
from symx.replay import replay
sys.exit(replay(check='checks.c08', kernel='build', shape={'program': 'blackman_shared_neg'},
                assignment={}, label='build:template_unchanged'))
