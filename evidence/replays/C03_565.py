#!/verif/.venv/bin/python
# Replay of a solver counterexample against the unmodified code (no shims).
# property=C03 kernel=step label=c01:refusal_has_cause
import sys
sys.path[:0] = ["/repo/pulser-core", "/repo/pulser-simulation", "/verif"]
from symx.replay import replay
sys.exit(replay(check='checks.c03', kernel='step', shape={'own': {'clock': 4, 'local': True, 'slots': ['target'], 'mod': True, 'pj': 'custom', 'targets_a': ['q0'], 'targets_b': ['q1']}, 'op': ['add_pulse', 'wait-for-all', 'A'], 'maxseq': True, 'nbarriers': 1},
                assignment={'max_sequence_duration': 12, 'own.min_duration': 2, 'own.tr': 1, 'own.pjt': 0, 'own.min_retarget': 0, 'own.fixed_retarget': 1, 'own.s0.dur/k': 1, 'new.dur/k': 1, 'barrier0': 5}, label='c01:refusal_has_cause'))
