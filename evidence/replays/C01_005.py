#!/verif/.venv/bin/python
# Replay of a solver counterexample against the unmodified code (no shims).
# property=C01 kernel=l1 label=c01:max_sequence_duration
import sys
sys.path[:0] = ['/repo' + "/pulser-core", '/repo' + "/pulser-simulation", "/verif"]
from symx.replay import replay
sys.exit(replay(check='checks.c01', kernel='l1', shape={'own': {'clock': 1, 'local': True, 'slots': [], 'mod': True, 'pj': 'custom', 'targets_a': ['q0'], 'targets_b': ['q1']}, 'op': ['add_target', 'diff'], 'maxseq': True, 'nbarriers': 1},
                assignment={'max_sequence_duration': 1, 'own.min_duration': 1, 'own.tr': 1, 'own.pjt': 0, 'own.min_retarget': 2, 'own.fixed_retarget': 1}, label='c01:max_sequence_duration'))
