#!/verif/.venv/bin/python
# Replay of a solver counterexample against the unmodified code (no shims).
# property=C01 kernel=slm label=slm:masked_add_is_accepted
import sys
sys.path[:0] = ['/repo' + "/pulser-core", '/repo' + "/pulser-simulation", "/verif"]
from symx.replay import replay
sys.exit(replay(check='checks.c01', kernel='slm', shape={'order': 'mask_first', 'masked': ['q0', 'q1'], 'rem': 0},
                assignment={'amp': '1025017207358883/140737488355328', 'dur/k': 2}, label='slm:masked_add_is_accepted'))
