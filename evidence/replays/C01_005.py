#!/verif/.venv/bin/python
# Replay of a solver counterexample against the unmodified code (no shims).
# property=C01 kernel=seq label=seq:inside_is_accepted
import sys
sys.path[:0] = ["/repo/pulser-core", "/repo/pulser-simulation", "/verif"]
from symx.replay import replay
sys.exit(replay(check='checks.c01', kernel='seq', shape={'device': 'virt_reuse', 'call': 'add_dmm2', 'prior': False, 'rem': 0},
                assignment={'amp': '0/1', 'det': -2513274126}, label='seq:inside_is_accepted'))
