#!/bin/sh
# Build the overlay venv used by every check: /venv's python + site-packages
# (pulser deps) + z3-solver / crosshair-tool from the offline wheelhouse.
# Idempotent; needs no network.
set -e
HERE="$(cd "$(dirname "$0")" && pwd)"
V="$HERE/.venv"
if [ -x "$V/bin/python" ] && "$V/bin/python" -c "import z3, numpy, jsonschema" 2>/dev/null; then
  exit 0
fi
rm -rf "$V"
/venv/bin/python -m venv "$V"
SP="$("$V/bin/python" -c 'import sysconfig; print(sysconfig.get_paths()["purelib"])')"
echo "import site; site.addsitedir('/venv/lib/python3.12/site-packages')" > "$SP/_venv_overlay.pth"
PIP_NO_INDEX=1 "$V/bin/python" -m pip install -q --no-index --find-links /opt/veriftools/wheels z3-solver >/dev/null
PIP_NO_INDEX=1 "$V/bin/python" -m pip install -q --no-index --find-links /opt/veriftools/wheels crosshair-tool >/dev/null 2>&1 || echo "setup: crosshair-tool not installed (optional)"
"$V/bin/python" -c "import z3; print('setup ok: z3', z3.get_version_string())"
